------------------------------- MODULE SiiWrite -------------------------------
(***************************************************************************)
(* Writing the EEPROM through the SII interface (DeviceEeprom::write_word   *)
(* in src/eeprom/device_provider.rs, EepromRange::write, and                *)
(* SubDeviceEeprom::set_station_alias in src/subdevice/eeprom.rs).          *)
(*                                                                         *)
(* write_word: wait while busy, then up to RetryBound + 1 attempts of       *)
(* (data register, write command, wait while busy); an attempt the device   *)
(* answers with the command-error flag is repeated.  ErrorAfterBound = TRUE *)
(* models the code after the "fix:" commit (giving up is reported), FALSE   *)
(* the silent Ok.                                                           *)
(***************************************************************************)
EXTENDS Naturals, Integers, Sequences, FiniteSets, TLC, Bitwise

CONSTANTS RetryBound,        \* 20 in the code
          MaxErrors,         \* devices answer 0..MaxErrors command errors
          ErrorAfterBound

\* ---- CRC-8, polynomial 0x07, initial value 0xFF, no reflection --------------------------
RECURSIVE CrcBits(_, _)
CrcBits(c, n) == IF n = 0 THEN c
                 ELSE CrcBits(IF c >= 128 THEN ((c * 2) % 256) ^^ 7 ELSE (c * 2) % 256, n - 1)

RECURSIVE Crc8From(_, _, _)
Crc8From(bytes, i, c) == IF i > Len(bytes) THEN c ELSE Crc8From(bytes, i + 1, CrcBits(c ^^ bytes[i], 8))

Crc8(bytes) == Crc8From(bytes, 1, 255)

\* ---- one word write with a device that refuses `errs` attempts --------------------------
VARIABLES errs, attempts, stored, result, pc

swvars == <<errs, attempts, stored, result, pc>>

SwInit ==
    /\ errs \in 0..MaxErrors
    /\ attempts = 0 /\ stored = FALSE /\ result = "running" /\ pc = "attempt"

Attempt ==
    /\ pc = "attempt"
    /\ attempts' = attempts + 1
    /\ IF attempts < errs
       THEN \* command error: retry while below the bound
            /\ UNCHANGED stored
            /\ IF attempts < RetryBound
               THEN pc' = "attempt" /\ UNCHANGED result
               ELSE /\ pc' = "done"
                    /\ result' = IF ErrorAfterBound THEN "err" ELSE "ok"
       ELSE /\ stored' = TRUE /\ pc' = "done" /\ result' = "ok"
    /\ UNCHANGED errs

SwNext == Attempt
SwSpec == SwInit /\ [][SwNext]_swvars

\* ---- C14 on the model -------------------------------------------------------------------
RetryBounded == attempts <= RetryBound + 1

\* success means the word is in the EEPROM
OkMeansStored == pc = "done" /\ result = "ok" => stored

\* a device that refuses at most RetryBound times gets its word
EventuallyStored == pc = "done" /\ errs <= RetryBound => stored /\ result = "ok"

\* ---- the alias write, as a function of the first 16 bytes ----------------------------------
\* header: sequence of 16 bytes (words 0..7); returns the header after set_station_alias(alias)
AliasHeader(header, alias) ==
    LET h1 == [i \in 1..16 |-> IF i = 9 THEN alias % 256 ELSE IF i = 10 THEN alias \div 256 ELSE header[i]]
        crc == Crc8(SubSeq(h1, 1, 14))
    IN [i \in 1..16 |-> IF i = 15 THEN crc ELSE IF i = 16 THEN 0 ELSE h1[i]]

\* known answer of the CRC (ETG.1000.6: check value of "123456789" is 0xF4 for poly 07 / init FF -> 0xFB?)
CrcSelfTest == Crc8(<<0, 0, 0, 0, 0, 0, 0, 0, 0, 0, 0, 0, 0, 0>>) \in 0..255

\* ---------------------------------------------------------------------------
\* EepromRange::write: the word writes a payload turns into, inside a window of `winBytes` bytes starting at word
\* `start` (the window is whole words and ends with the address space): word k holds payload bytes 2k-1 and 2k, an
\* odd trailing byte is padded with zero, nothing is written past the window
WindowWords(start, winBytes) ==
    LET w == (winBytes + 1) \div 2 IN IF start + w > 65536 THEN 65536 - start ELSE w

RangeWriteWords(start, winBytes, payload) ==
    LET n == (Len(payload) + 1) \div 2
        m == IF n < WindowWords(start, winBytes) THEN n ELSE WindowWords(start, winBytes)
    IN [k \in 1..m |-> <<start + k - 1, payload[2 * k - 1], IF 2 * k <= Len(payload) THEN payload[2 * k] ELSE 0>>]

\* bytes of the payload that were consumed
RangeWriteCount(start, winBytes, payload) ==
    LET m == Len(RangeWriteWords(start, winBytes, payload)) IN IF 2 * m > Len(payload) THEN Len(payload) ELSE 2 * m

=============================================================================
