---------------------------- MODULE MailboxPoll ----------------------------
(***************************************************************************)
(* The register-level handshake around one mailbox request                  *)
(* (Coe::wait_for_mailboxes, mailbox_write_read, wait_for_mailbox_response  *)
(* in src/mailbox/coe/mod.rs): drain whatever is still in the device's send *)
(* mailbox (at most ten times), wait until its receive mailbox is empty,    *)
(* write the request, poll the send mailbox's sync manager status until it  *)
(* is full, fetch the response.  One action per datagram; the device        *)
(* consumes the request and loads queued messages into its send mailbox at  *)
(* any time in between (silent steps).                                      *)
(*                                                                         *)
(* Messages are tagged: "stale" (left over from before the request) or      *)
(* "response".  PromptReload = TRUE is a device that puts the next queued   *)
(* message into its send mailbox as soon as the previous one was fetched    *)
(* (the property's quantifier: stale data left in the out-mailbox *before*  *)
(* the request); FALSE lets it take its time - TLC then shows the race in   *)
(* which a late leftover is taken for the response.                         *)
(***************************************************************************)
EXTENDS Naturals, Sequences, FiniteSets, TLC

CONSTANTS MaxStale,          \* messages queued in the device before the request
          MaxPolls,          \* polls before the MainDevice gives up (timeout), exploration bound
          PromptReload       \* TRUE: the next queued message is in the mailbox as soon as the previous one was fetched

VARIABLES mpc,        \* MainDevice: "drain_check" | "drain_read" | "in_check" | "write" | "poll" | "read" | "done" | "timeout"
          iter,       \* drain iterations so far
          polls,
          outBox,     \* content of the send mailbox: "" = empty, else the tag of the message in it
          queue,      \* messages the device still has to load: sequence of tags
          inFull,     \* the receive mailbox holds an unread request
          got,        \* what the MainDevice took for the response
          drained,    \* number of messages thrown away
          wrote       \* number of request writes
mpvars == <<mpc, iter, polls, outBox, queue, inFull, got, drained, wrote>>

MpInitWith(n) ==
    /\ mpc = "drain_check" /\ iter = 0 /\ polls = 0
    /\ outBox = IF n > 0 THEN "stale" ELSE ""
    /\ queue = [i \in 1..(IF n > 0 THEN n - 1 ELSE 0) |-> "stale"]
    /\ inFull = FALSE /\ got = "" /\ drained = 0 /\ wrote = 0

MpInit == \E n \in 0..MaxStale : MpInitWith(n)

\* ---- MainDevice: one action per datagram ----------------------------------------------------
\* FPRD of the send mailbox's SM status
DrainCheck ==
    /\ mpc = "drain_check"
    /\ IF iter < 10 /\ outBox # "" THEN mpc' = "drain_read" ELSE mpc' = "in_check"
    /\ UNCHANGED <<iter, polls, outBox, queue, inFull, got, drained, wrote>>

\* FPRD of the whole send mailbox, result thrown away
DrainRead ==
    /\ mpc = "drain_read"
    /\ drained' = drained + 1 /\ iter' = iter + 1
    /\ IF PromptReload /\ queue # <<>> THEN outBox' = Head(queue) /\ queue' = Tail(queue) ELSE outBox' = "" /\ UNCHANGED queue
    /\ mpc' = "drain_check"
    /\ UNCHANGED <<polls, inFull, got, wrote>>

\* FPRD of the receive mailbox's SM status
InCheck ==
    /\ mpc = "in_check"
    /\ IF ~inFull THEN mpc' = "write" /\ UNCHANGED polls
       ELSE IF polls >= MaxPolls THEN mpc' = "timeout" /\ UNCHANGED polls
       ELSE polls' = polls + 1 /\ UNCHANGED mpc
    /\ UNCHANGED <<iter, outBox, queue, inFull, got, drained, wrote>>

\* FPWR of the request
Write ==
    /\ mpc = "write"
    /\ inFull' = TRUE /\ wrote' = wrote + 1 /\ polls' = 0
    /\ mpc' = "poll"
    /\ UNCHANGED <<iter, outBox, queue, got, drained>>

\* FPRD of the send mailbox's SM status
Poll ==
    /\ mpc = "poll"
    /\ IF outBox # "" THEN mpc' = "read" /\ UNCHANGED polls
       ELSE IF polls >= MaxPolls THEN mpc' = "timeout" /\ UNCHANGED polls
       ELSE polls' = polls + 1 /\ UNCHANGED mpc
    /\ UNCHANGED <<iter, outBox, queue, inFull, got, drained, wrote>>

\* FPRD of the whole send mailbox: the response
Read ==
    /\ mpc = "read"
    /\ got' = outBox
    /\ IF PromptReload /\ queue # <<>> THEN outBox' = Head(queue) /\ queue' = Tail(queue) ELSE outBox' = "" /\ UNCHANGED queue
    /\ mpc' = "done"
    /\ UNCHANGED <<iter, polls, inFull, drained, wrote>>

\* ---- device (silent) ------------------------------------------------------------------------
Consume ==
    /\ inFull
    /\ inFull' = FALSE /\ queue' = Append(queue, "response")
    /\ UNCHANGED <<mpc, iter, polls, outBox, got, drained, wrote>>

Load ==
    /\ outBox = "" /\ queue # <<>>
    /\ outBox' = Head(queue) /\ queue' = Tail(queue)
    /\ UNCHANGED <<mpc, iter, polls, inFull, got, drained, wrote>>

Master == DrainCheck \/ DrainRead \/ InCheck \/ Write \/ Poll \/ Read
Device == Consume \/ Load
MpNext == Master \/ Device
MpSpec == MpInit /\ [][MpNext]_mpvars

\* ---------------------------------------------------------------------------
\* the request is written exactly once, and only into an empty mailbox
WrittenOnce == wrote <= 1 /\ (mpc \in {"poll", "read", "done"} => wrote = 1)

\* what is taken for the response is the response, as long as the device had at most ten leftovers loaded in time
ResponseIsResponse == (mpc = "done" /\ MaxStale <= 10 /\ PromptReload) => got = "response"

\* the unconditional form: fails with more than ten leftovers, and with a device that reloads late (the race)
NeverStaleAsResponse == mpc = "done" => got = "response"

\* at most ten messages are thrown away
DrainBounded == drained <= 10 /\ iter <= 10
=============================================================================
