------------------------------- MODULE PduLoop -------------------------------
(***************************************************************************)
(* The lock-free frame-slot protocol of ethercrab's PDU loop                *)
(* (src/pdu_loop).  One action per access to shared state: every action     *)
(* below corresponds to exactly one cfg(ethercrab_verif) yield point in the *)
(* code (spec/HOOKS.md) or to one decision of the harness that plays the    *)
(* role of the caller / the network.                                        *)
(*                                                                         *)
(* Processes: application tasks Apps, the transmit task "tx", the receive   *)
(* task "rx" and the environment (network, clock).                          *)
(*                                                                         *)
(* The specification models what the code DOES, including the places where  *)
(* it stores unconditionally instead of compare-exchanging.  Whether the    *)
(* properties hold is for TLC to say.                                       *)
(***************************************************************************)
EXTENDS Naturals, Integers, Sequences, FiniteSets, TLC

CONSTANTS
    N,              \* number of frame slots (power of two or 1)
    Apps,           \* set of application task ids, e.g. 0..1
    IdxMod,         \* modulus of the datagram index counter (256 in the code)
    MaxReq,         \* requests issued per application task
    MaxPdus,        \* datagrams pushed per frame: 1..MaxPdus
    RetrySet,       \* set of retry counts a request may be created with
    AllowTimer,     \* BOOLEAN: deadlines may fire
    AllowAbandon,   \* BOOLEAN: a pending future may be dropped
    AllowDropCreated,\* BOOLEAN: a created frame may be dropped before mark_sendable
    AllowLose,      \* BOOLEAN: the network may lose a frame
    DupBudget,      \* how many times the network may duplicate a frame
    SendFailBudget, \* how many sends may fail (error or partial write)
    ViewOwnsSlot,   \* BOOLEAN: TRUE iff the response view keeps the slot claimed
                    \* (the code after the "fix:" commit); FALSE = view outlives the slot
    TxCas,          \* BOOLEAN: TRUE iff the transmit side leaves Sending with a
                    \* compare-exchange (after the "fix:" commit); FALSE = plain store
    ClearFirst,     \* BOOLEAN: TRUE iff dropping a received frame clears its first datagram
                    \* index before releasing the slot (after the "fix:" commit)
    Recheck,        \* BOOLEAN: TRUE iff the deadline branch of poll() re-checks for a received
                    \* response and re-queues with a compare-exchange (after the "fix:" commit)
    SentOnly,       \* BOOLEAN: TRUE iff the receive path only matches slots in state Sent
                    \* (after the "fix:" commit)
    TimerApps,      \* subset of Apps whose deadline may fire / whose future may be dropped
    EarlyResponse,  \* BOOLEAN: the network may answer before the transmit side has marked
                    \* the frame as sent (C01/C02 assume it does not)
    InitPduIdx      \* value of the datagram index cursor at start

Slots == 0 .. (N - 1)
EMPTY == 65280            \* 0xff00, FIRST_PDU_EMPTY
NoApp == 99
NoSlot == 99
TX == 100            \* party ids of the transmit and receive task
RX == 101

\* Frame states, numbered as in FrameState
None == 0  Created == 1  Sendable == 2  Sending == 3
Sent == 4  RxBusy == 5   RxDone == 6    RxProcessing == 7

\* Abstract buffer contents
Zero == <<"zero", NoApp, 0>>
Req(a, k) == <<"req", a, k>>
Resp(a, k) == <<"resp", a, k>>

VARIABLES
    \* ---- shared state of the implementation -------------------------------
    st,         \* st[s]   : frame state word
    fp,         \* fp[s]   : first datagram index word (EMPTY = sentinel)
    plen,       \* plen[s] : number of datagrams in the frame (abstracts pdu_payload_len)
    wk,         \* wk[s]   : application task whose waker is registered, or NoApp
    buf,        \* buf[s]  : abstract content of the buffer
    bidx,       \* bidx[s] : datagram index written in the first header of the buffer
    frameIdx,   \* allocation cursor modulo N
    pduIdx,     \* datagram index cursor modulo IdxMod
    txWaker,    \* BOOLEAN: transmit task's waker is registered
    \* ---- application tasks -------------------------------------------------
    pc,         \* pc[a]
    cand,       \* cand[a]   : slot the task is working on
    attempts,   \* attempts[a]: allocation attempts so far
    reqNo,      \* reqNo[a]  : number of the current request (1..MaxReq), 0 before the first
    npdus,      \* npdus[a]  : datagrams to push in this request
    pushed,     \* pushed[a] : datagrams pushed so far
    myIdx,      \* myIdx[a]  : index of the first datagram (the handle)
    curIdx,     \* curIdx[a] : index fetched for the datagram being pushed
    retries,    \* retries[a]: retries left
    timer,      \* timer[a]  : "off" | "armed" | "fired"
    yielded,    \* yielded[a]: the timer future has been polled at least once
    woken,      \* woken[a]  : the task's waker was invoked since it last started a poll
    was,        \* was[a]    : state seen by the failed RxDone->RxProcessing exchange
    result,     \* result[a] : outcome of the last finished request
    got,        \* got[a]    : content the task found when it parsed its response
    \* ---- transmit task -----------------------------------------------------
    txpc, txScan, txClaim, txWoken, txOutcome, sendFails,
    \* ---- receive task ------------------------------------------------------
    rxpc, rxScan, rxHand, rxMatch,
    \* ---- network -----------------------------------------------------------
    wire,       \* set of frames in flight: [id, idx, content]
    nextFrameId,
    dups,
    \* ---- ghost (never read by the protocol actions) ------------------------
    acc,        \* acc[s] : set of parties inside buffer s
    owner,      \* owner[s]: application task that holds the slot, or NoApp
    txCount,    \* txCount[a] : transmissions of the current request of a
    rt0,        \* rt0[a]    : retries the current request was created with
    idxSince,   \* idxSince[a]: indices allocated since a's current request got its index
    rejected    \* number of genuine responses the receive side turned away

shared == <<st, fp, plen, wk, buf, bidx, frameIdx, pduIdx, txWaker>>
appv   == <<pc, cand, attempts, reqNo, npdus, pushed, myIdx, curIdx, retries, timer,
            yielded, woken, was, result, got>>
txv    == <<txpc, txScan, txClaim, txWoken, txOutcome, sendFails>>
rxv    == <<rxpc, rxScan, rxHand, rxMatch>>
netv   == <<wire, nextFrameId, dups>>
ghost  == <<acc, owner, txCount, rt0, idxSince, rejected>>
vars   == <<shared, appv, txv, rxv, netv, ghost>>

-----------------------------------------------------------------------------
InitShared ==
    /\ st = [s \in Slots |-> None]
    /\ fp = [s \in Slots |-> 0]          \* storage is zeroed, NOT the sentinel
    /\ plen = [s \in Slots |-> 0]
    /\ buf = [s \in Slots |-> Zero]
    /\ bidx = [s \in Slots |-> 0]
    /\ frameIdx = 0
    /\ pduIdx = InitPduIdx

InitRest ==
    /\ wk = [s \in Slots |-> NoApp]
    /\ txWaker = FALSE
    /\ pc = [a \in Apps |-> "idle"]
    /\ cand = [a \in Apps |-> NoSlot]
    /\ attempts = [a \in Apps |-> 0]
    /\ reqNo = [a \in Apps |-> 0]
    /\ npdus = [a \in Apps |-> 1]
    /\ pushed = [a \in Apps |-> 0]
    /\ myIdx = [a \in Apps |-> 0]
    /\ curIdx = [a \in Apps |-> 0]
    /\ retries = [a \in Apps |-> 0]
    /\ timer = [a \in Apps |-> "off"]
    /\ yielded = [a \in Apps |-> FALSE]
    /\ woken = [a \in Apps |-> FALSE]
    /\ was = [a \in Apps |-> None]
    /\ result = [a \in Apps |-> "none"]
    /\ got = [a \in Apps |-> Zero]
    /\ txpc = "tx_idle" /\ txScan = 0 /\ txClaim = NoSlot /\ txWoken = TRUE
    /\ txOutcome = "ok" /\ sendFails = 0
    /\ rxpc = "rx_idle" /\ rxScan = 0 /\ rxHand = <<0, 0, Zero>> /\ rxMatch = NoSlot
    /\ wire = {} /\ nextFrameId = 1 /\ dups = 0
    /\ acc = [s \in Slots |-> {}]
    /\ owner = [s \in Slots |-> NoApp]
    /\ txCount = [a \in Apps |-> 0]
    /\ idxSince = [a \in Apps |-> 0]
    /\ rt0 = [a \in Apps |-> 0]
    /\ rejected = 0

Init == InitShared /\ InitRest

-----------------------------------------------------------------------------
(* Helpers *)

WakeTxEffect ==
    IF txWaker THEN /\ txWaker' = FALSE /\ txWoken' = TRUE
               ELSE /\ UNCHANGED <<txWaker, txWoken>>

Finish(a, res) ==
    /\ result' = [result EXCEPT ![a] = res]
    /\ pc' = [pc EXCEPT ![a] = "idle"]
    /\ timer' = [timer EXCEPT ![a] = "off"]

\* b's current request has been given its (first) datagram index and is still outstanding
HasIdx(b) ==
    /\ pc[b] \notin {"idle", "alloc_fetch", "alloc_claim", "init_meta", "init_buf", "init_end"}
    /\ (pushed[b] > 0 \/ pc[b] \in {"push_buf", "push_fp", "push_end"})

\* a slot that genuinely awaits the frame in the receive task's hand
Awaiting(t) == st[t] = Sent /\ bidx[t] = rxHand[2] /\ rxHand[3][1] = "resp"
                 /\ buf[t] = Req(rxHand[3][2], rxHand[3][3])

\* After the timer branch of poll(): `match was { Sendable|Sending|Sent|RxBusy => Pending, _ => Err }`
PendingOrInvalid(a) ==
    IF was[a] \in {Sendable, Sending, Sent, RxBusy}
        THEN /\ pc' = [pc EXCEPT ![a] = "parked"]
             /\ UNCHANGED <<result>>
        ELSE /\ pc' = [pc EXCEPT ![a] = "idle"]     \* Err(InvalidFrameState); the handle is gone
             /\ result' = [result EXCEPT ![a] = "invalid"]

-----------------------------------------------------------------------------
(* Application task a.  The string in pc[a] names the yield point at which  *)
(* the task is parked; the action is the access that follows the point.     *)

StartReq(a, np, rt) ==
    /\ pc[a] = "idle" /\ reqNo[a] < MaxReq
    /\ np \in 1..MaxPdus /\ rt \in RetrySet
    /\ reqNo' = [reqNo EXCEPT ![a] = @ + 1]
    /\ npdus' = [npdus EXCEPT ![a] = np]
    /\ retries' = [retries EXCEPT ![a] = rt]
    /\ pushed' = [pushed EXCEPT ![a] = 0]
    /\ attempts' = [attempts EXCEPT ![a] = 0]
    /\ result' = [result EXCEPT ![a] = "none"]
    /\ woken' = [woken EXCEPT ![a] = FALSE]
    /\ yielded' = [yielded EXCEPT ![a] = FALSE]
    /\ txCount' = [txCount EXCEPT ![a] = 0]
    /\ rt0' = [rt0 EXCEPT ![a] = rt]
    /\ idxSince' = [idxSince EXCEPT ![a] = 0]
    /\ pc' = [pc EXCEPT ![a] = "alloc_fetch"]
    /\ UNCHANGED <<shared, cand, myIdx, curIdx, timer, was, got, txv, rxv, netv, acc, owner, rejected>>

\* AllocFetch: frame_idx.fetch_add(1) % N
AllocFetch(a) ==
    /\ pc[a] = "alloc_fetch"
    /\ cand' = [cand EXCEPT ![a] = frameIdx]
    /\ frameIdx' = (frameIdx + 1) % N
    /\ pc' = [pc EXCEPT ![a] = "alloc_claim"]
    /\ UNCHANGED <<st, fp, plen, wk, buf, bidx, pduIdx, txWaker, attempts, reqNo, npdus, pushed,
                   myIdx, curIdx, retries, timer, yielded, woken, was, result, got,
                   txv, rxv, netv, ghost>>

\* SwapState(None -> Created)
AllocClaim(a) ==
    /\ pc[a] = "alloc_claim"
    /\ LET c == cand[a] IN
       IF st[c] = None
       THEN /\ st' = [st EXCEPT ![c] = Created]
            /\ plen' = [plen EXCEPT ![c] = 0]       \* claim_created: pdu_payload_len := 0
            /\ owner' = [owner EXCEPT ![c] = a]
            /\ pc' = [pc EXCEPT ![a] = "init_meta"]
            /\ UNCHANGED <<attempts, result, timer>>
       ELSE /\ UNCHANGED <<st, owner, plen>>
            /\ attempts' = [attempts EXCEPT ![a] = @ + 1]
            /\ IF attempts[a] + 1 < 2 * N
               THEN /\ pc' = [pc EXCEPT ![a] = "alloc_fetch"] /\ UNCHANGED <<result, timer>>
               ELSE Finish(a, "allocfail")
    /\ UNCHANGED <<fp, wk, buf, bidx, frameIdx, pduIdx, txWaker, cand, reqNo, npdus, pushed,
                   myIdx, curIdx, retries, yielded, woken, was, got,
                   txv, rxv, netv, acc, txCount, rt0, idxSince, rejected>>

\* InitMeta: waker := new, first_pdu := EMPTY, payload_len := 0
InitMeta(a) ==
    /\ pc[a] = "init_meta"
    /\ LET c == cand[a] IN
       /\ wk' = [wk EXCEPT ![c] = NoApp]
       /\ fp' = [fp EXCEPT ![c] = EMPTY]
       /\ plen' = [plen EXCEPT ![c] = 0]
    /\ pc' = [pc EXCEPT ![a] = "init_buf"]
    /\ UNCHANGED <<st, buf, bidx, frameIdx, pduIdx, txWaker, cand, attempts, reqNo, npdus, pushed,
                   myIdx, curIdx, retries, timer, yielded, woken, was, result, got,
                   txv, rxv, netv, ghost>>

\* BufBegin(W, Init): Ethernet header + zero fill
InitBuf(a) ==
    /\ pc[a] = "init_buf"
    /\ LET c == cand[a] IN
       /\ buf' = [buf EXCEPT ![c] = Zero]
       /\ bidx' = [bidx EXCEPT ![c] = 0]
       /\ acc' = [acc EXCEPT ![c] = @ \cup {a}]
    /\ pc' = [pc EXCEPT ![a] = "init_end"]
    /\ UNCHANGED <<st, fp, plen, wk, frameIdx, pduIdx, txWaker, cand, attempts, reqNo, npdus,
                   pushed, myIdx, curIdx, retries, timer, yielded, woken, was, result, got,
                   txv, rxv, netv, owner, txCount, rt0, idxSince, rejected>>

\* BufEnd
InitEnd(a) ==
    /\ pc[a] = "init_end"
    /\ acc' = [acc EXCEPT ![cand[a]] = @ \ {a}]
    /\ pc' = [pc EXCEPT ![a] = "created"]
    /\ UNCHANGED <<shared, cand, attempts, reqNo, npdus, pushed, myIdx, curIdx, retries, timer,
                   yielded, woken, was, result, got, txv, rxv, netv, owner, txCount, rt0, idxSince, rejected>>

\* Harness decision at "created": push another datagram
PushStart(a) ==
    /\ pc[a] = "created" /\ pushed[a] < npdus[a]
    /\ pc' = [pc EXCEPT ![a] = "push_idx"]
    /\ UNCHANGED <<shared, cand, attempts, reqNo, npdus, pushed, myIdx, curIdx, retries, timer,
                   yielded, woken, was, result, got, txv, rxv, netv, ghost>>

\* PduIdxFetch: pdu_idx.fetch_add(1)
PushIdx(a) ==
    /\ pc[a] = "push_idx"
    /\ curIdx' = [curIdx EXCEPT ![a] = pduIdx]
    /\ myIdx' = [myIdx EXCEPT ![a] = IF pushed[a] = 0 THEN pduIdx ELSE @]
    /\ pduIdx' = (pduIdx + 1) % IdxMod
    /\ idxSince' = [b \in Apps |->
                      IF b = a THEN (IF pushed[a] = 0 THEN 0 ELSE idxSince[a] + 1)
                      ELSE IF HasIdx(b) THEN idxSince[b] + 1 ELSE idxSince[b]]
    /\ pc' = [pc EXCEPT ![a] = "push_buf"]
    /\ UNCHANGED <<st, fp, plen, wk, buf, bidx, frameIdx, txWaker, cand, attempts, reqNo, npdus,
                   pushed, retries, timer, yielded, woken, was, result, got,
                   txv, rxv, netv, acc, owner, txCount, rt0, rejected>>

\* BufBegin(W, Push): header + data written, payload_len grows
PushBuf(a) ==
    /\ pc[a] = "push_buf"
    /\ LET c == cand[a] IN
       /\ buf' = [buf EXCEPT ![c] = Req(a, reqNo[a])]
       /\ bidx' = [bidx EXCEPT ![c] = IF pushed[a] = 0 THEN curIdx[a] ELSE @]
       /\ plen' = [plen EXCEPT ![c] = @ + 1]
       /\ acc' = [acc EXCEPT ![c] = @ \cup {a}]
    /\ pc' = [pc EXCEPT ![a] = "push_fp"]
    /\ UNCHANGED <<st, fp, wk, frameIdx, pduIdx, txWaker, cand, attempts, reqNo, npdus, pushed,
                   myIdx, curIdx, retries, timer, yielded, woken, was, result, got,
                   txv, rxv, netv, owner, txCount, rt0, idxSince, rejected>>

\* FpSet: compare_exchange(EMPTY, idx)
PushFp(a) ==
    /\ pc[a] = "push_fp"
    /\ LET c == cand[a] IN
       fp' = [fp EXCEPT ![c] = IF @ = EMPTY THEN curIdx[a] ELSE @]
    /\ pc' = [pc EXCEPT ![a] = "push_end"]
    /\ UNCHANGED <<st, plen, wk, buf, bidx, frameIdx, pduIdx, txWaker, cand, attempts, reqNo,
                   npdus, pushed, myIdx, curIdx, retries, timer, yielded, woken, was, result, got,
                   txv, rxv, netv, ghost>>

\* BufEnd
PushEnd(a) ==
    /\ pc[a] = "push_end"
    /\ acc' = [acc EXCEPT ![cand[a]] = @ \ {a}]
    /\ pushed' = [pushed EXCEPT ![a] = @ + 1]
    /\ pc' = [pc EXCEPT ![a] = "created"]
    /\ UNCHANGED <<shared, cand, attempts, reqNo, npdus, myIdx, curIdx, retries, timer,
                   yielded, woken, was, result, got, txv, rxv, netv, owner, txCount, rt0, idxSince, rejected>>

\* Harness decision at "created": drop the frame without sending it
DropCreatedStart(a) ==
    /\ AllowDropCreated
    /\ pc[a] = "created"
    /\ pc' = [pc EXCEPT ![a] = "drop_created"]
    /\ UNCHANGED <<shared, cand, attempts, reqNo, npdus, pushed, myIdx, curIdx, retries, timer,
                   yielded, woken, was, result, got, txv, rxv, netv, ghost>>

\* SwapState(Created -> None) in CreatedFrame::drop
DropCreated(a) ==
    /\ pc[a] = "drop_created"
    /\ LET c == cand[a] IN
       IF st[c] = Created
       THEN /\ st' = [st EXCEPT ![c] = None] /\ owner' = [owner EXCEPT ![c] = NoApp]
       ELSE UNCHANGED <<st, owner>>
    /\ Finish(a, "dropped")
    /\ UNCHANGED <<fp, plen, wk, buf, bidx, frameIdx, pduIdx, txWaker, cand, attempts, reqNo, npdus,
                   pushed, myIdx, curIdx, retries, yielded, woken, was, got,
                   txv, rxv, netv, acc, txCount, rt0, idxSince, rejected>>

\* Harness decision at "created": mark_sendable
MarkStart(a) ==
    /\ pc[a] = "created" /\ pushed[a] = npdus[a]
    /\ pc' = [pc EXCEPT ![a] = "hdr_buf"]
    /\ UNCHANGED <<shared, cand, attempts, reqNo, npdus, pushed, myIdx, curIdx, retries, timer,
                   yielded, woken, was, result, got, txv, rxv, netv, ghost>>

\* BufBegin(W, Header): EtherCAT frame header written
HdrBuf(a) ==
    /\ pc[a] = "hdr_buf"
    /\ acc' = [acc EXCEPT ![cand[a]] = @ \cup {a}]
    /\ pc' = [pc EXCEPT ![a] = "hdr_end"]
    /\ UNCHANGED <<shared, cand, attempts, reqNo, npdus, pushed, myIdx, curIdx, retries, timer,
                   yielded, woken, was, result, got, txv, rxv, netv, owner, txCount, rt0, idxSince, rejected>>

HdrEnd(a) ==
    /\ pc[a] = "hdr_end"
    /\ acc' = [acc EXCEPT ![cand[a]] = @ \ {a}]
    /\ pc' = [pc EXCEPT ![a] = "mark"]
    /\ UNCHANGED <<shared, cand, attempts, reqNo, npdus, pushed, myIdx, curIdx, retries, timer,
                   yielded, woken, was, result, got, txv, rxv, netv, owner, txCount, rt0, idxSince, rejected>>

\* SetState(Sendable); the response timer is created right after
Mark(a) ==
    /\ pc[a] = "mark"
    /\ st' = [st EXCEPT ![cand[a]] = Sendable]
    /\ timer' = [timer EXCEPT ![a] = "armed"]
    /\ yielded' = [yielded EXCEPT ![a] = FALSE]
    /\ pc' = [pc EXCEPT ![a] = "mark_drop"]
    /\ UNCHANGED <<fp, plen, wk, buf, bidx, frameIdx, pduIdx, txWaker, cand, attempts, reqNo, npdus,
                   pushed, myIdx, curIdx, retries, woken, was, result, got,
                   txv, rxv, netv, ghost>>

\* SwapState(Created -> None): mark_sendable consumed the CreatedFrame, whose Drop runs now
MarkDrop(a) ==
    /\ pc[a] = "mark_drop"
    /\ st' = [st EXCEPT ![cand[a]] = IF @ = Created THEN None ELSE @]
    /\ pc' = [pc EXCEPT ![a] = "wake_tx"]
    /\ UNCHANGED <<fp, plen, wk, buf, bidx, frameIdx, pduIdx, txWaker, cand, attempts, reqNo, npdus,
                   pushed, myIdx, curIdx, retries, timer, yielded, woken, was, result, got,
                   txv, rxv, netv, ghost>>

\* WakeTx
WakeTx(a) ==
    /\ pc[a] = "wake_tx"
    /\ WakeTxEffect
    /\ pc' = [pc EXCEPT ![a] = "reg_waker"]
    /\ UNCHANGED <<st, fp, plen, wk, buf, bidx, frameIdx, pduIdx, cand, attempts, reqNo, npdus,
                   pushed, myIdx, curIdx, retries, timer, yielded, woken, was, result, got,
                   txpc, txScan, txClaim, txOutcome, sendFails, rxv, netv, ghost>>

\* RegWaker: first access of ReceiveFrameFut::poll
RegWaker(a) ==
    /\ pc[a] = "reg_waker"
    /\ wk' = [wk EXCEPT ![cand[a]] = a]
    /\ pc' = [pc EXCEPT ![a] = "poll_swap"]
    /\ UNCHANGED <<st, fp, plen, buf, bidx, frameIdx, pduIdx, txWaker, cand, attempts, reqNo, npdus,
                   pushed, myIdx, curIdx, retries, timer, yielded, woken, was, result, got,
                   txv, rxv, netv, ghost>>

\* SwapState(RxDone -> RxProcessing)
PollSwap(a) ==
    /\ pc[a] = "poll_swap"
    /\ LET c == cand[a] IN
       IF st[c] = RxDone
       THEN /\ st' = [st EXCEPT ![c] = RxProcessing]
            /\ pc' = [pc EXCEPT ![a] = "parse_buf"]
            /\ UNCHANGED was
       ELSE /\ UNCHANGED st
            /\ was' = [was EXCEPT ![a] = st[c]]
            /\ pc' = [pc EXCEPT ![a] = "timer_poll"]
    /\ UNCHANGED <<fp, plen, wk, buf, bidx, frameIdx, pduIdx, txWaker, cand, attempts, reqNo, npdus,
                   pushed, myIdx, curIdx, retries, timer, yielded, woken, result, got,
                   txv, rxv, netv, ghost>>

\* TimerPoll: embassy_time::Timer::poll - Ready iff it has been polled before and expired
TimerPoll(a) ==
    /\ pc[a] = "timer_poll"
    /\ IF timer[a] = "fired" /\ yielded[a]
       THEN IF Recheck
            THEN /\ pc' = [pc EXCEPT ![a] = "recheck"]
                 /\ UNCHANGED <<timer, yielded, woken, result>>
            ELSE IF retries[a] = 0
            THEN /\ pc' = [pc EXCEPT ![a] = "release"]
                 /\ UNCHANGED <<timer, yielded, woken, result>>
            ELSE \* new timer created and polled once (registers with the clock)
                 /\ timer' = [timer EXCEPT ![a] = "armed"]
                 /\ yielded' = [yielded EXCEPT ![a] = TRUE]
                 /\ pc' = [pc EXCEPT ![a] = "retry_set"]
                 /\ UNCHANGED <<woken, result>>
       ELSE \* Pending: registers with the clock; an already expired timer wakes at once
            /\ yielded' = [yielded EXCEPT ![a] = TRUE]
            /\ woken' = [woken EXCEPT ![a] = IF timer[a] = "fired" THEN TRUE ELSE @]
            /\ PendingOrInvalid(a)
            /\ UNCHANGED timer
    /\ UNCHANGED <<shared, cand, attempts, reqNo, npdus, pushed, myIdx, curIdx, retries, was, got,
                   txv, rxv, netv, ghost>>

\* SwapState(RxDone -> RxProcessing) in the deadline branch: a response that is already here wins
RecheckSwap(a) ==
    /\ pc[a] = "recheck"
    /\ LET c == cand[a] IN
       IF st[c] = RxDone
       THEN /\ st' = [st EXCEPT ![c] = RxProcessing]
            /\ pc' = [pc EXCEPT ![a] = "parse_buf"]
            /\ UNCHANGED <<timer, yielded>>
       ELSE /\ UNCHANGED st
            /\ IF retries[a] = 0
               THEN /\ pc' = [pc EXCEPT ![a] = "release"] /\ UNCHANGED <<timer, yielded>>
               ELSE /\ timer' = [timer EXCEPT ![a] = "armed"]
                    /\ yielded' = [yielded EXCEPT ![a] = TRUE]
                    /\ pc' = [pc EXCEPT ![a] = "retry_set"]
    /\ UNCHANGED <<fp, plen, wk, buf, bidx, frameIdx, pduIdx, txWaker, cand, attempts, reqNo, npdus,
                   pushed, myIdx, curIdx, retries, woken, was, result, got,
                   txv, rxv, netv, ghost>>

\* SetState(None): ReceiveFrameFut::release on the last timeout
Release(a) ==
    /\ pc[a] = "release"
    /\ st' = [st EXCEPT ![cand[a]] = None]
    /\ owner' = [owner EXCEPT ![cand[a]] = IF @ = a THEN NoApp ELSE @]
    /\ Finish(a, "timeout")
    /\ UNCHANGED <<fp, plen, wk, buf, bidx, frameIdx, pduIdx, txWaker, cand, attempts, reqNo, npdus,
                   pushed, myIdx, curIdx, retries, yielded, woken, was, got,
                   txv, rxv, netv, acc, txCount, rt0, idxSince, rejected>>

\* retry: SetState(Sendable), or with Recheck SwapState(Sent -> Sendable); a failed exchange
\* skips the wake-up of the transmit task
RetryMark(a) ==
    /\ pc[a] = "retry_set"
    /\ IF Recheck /\ st[cand[a]] # Sent
       THEN /\ UNCHANGED st
            /\ retries' = [retries EXCEPT ![a] = @ - 1]
            /\ PendingOrInvalid(a)
       ELSE /\ st' = [st EXCEPT ![cand[a]] = Sendable]
            /\ pc' = [pc EXCEPT ![a] = "retry_wake"]
            /\ UNCHANGED <<retries, result>>
    /\ UNCHANGED <<fp, plen, wk, buf, bidx, frameIdx, pduIdx, txWaker, cand, attempts, reqNo, npdus,
                   pushed, myIdx, curIdx, timer, yielded, woken, was, got,
                   txv, rxv, netv, ghost>>

\* WakeTx in the retry path, then retries_left -= 1 and the `match was`
RetryWake(a) ==
    /\ pc[a] = "retry_wake"
    /\ WakeTxEffect
    /\ retries' = [retries EXCEPT ![a] = @ - 1]
    /\ PendingOrInvalid(a)
    /\ UNCHANGED <<st, fp, plen, wk, buf, bidx, frameIdx, pduIdx, cand, attempts, reqNo, npdus,
                   pushed, myIdx, curIdx, timer, yielded, woken, was, got,
                   txpc, txScan, txClaim, txOutcome, sendFails, rxv, netv, ghost>>

\* Harness: a parked task whose waker was invoked polls again
Repoll(a) ==
    /\ pc[a] = "parked" /\ woken[a]
    /\ woken' = [woken EXCEPT ![a] = FALSE]
    /\ pc' = [pc EXCEPT ![a] = "reg_waker"]
    /\ UNCHANGED <<shared, cand, attempts, reqNo, npdus, pushed, myIdx, curIdx, retries, timer,
                   yielded, was, result, got, txv, rxv, netv, ghost>>

\* Harness: drop the pending future
AbandonStart(a) ==
    /\ AllowAbandon /\ a \in TimerApps
    /\ pc[a] = "parked"
    /\ pc' = [pc EXCEPT ![a] = "drop_fut"]
    /\ UNCHANGED <<shared, cand, attempts, reqNo, npdus, pushed, myIdx, curIdx, retries, timer,
                   yielded, woken, was, result, got, txv, rxv, netv, ghost>>

\* SetState(None) in ReceiveFrameFut::drop
DropFut(a) ==
    /\ pc[a] = "drop_fut"
    /\ st' = [st EXCEPT ![cand[a]] = None]
    /\ owner' = [owner EXCEPT ![cand[a]] = IF @ = a THEN NoApp ELSE @]
    /\ Finish(a, "abandoned")
    /\ UNCHANGED <<fp, plen, wk, buf, bidx, frameIdx, pduIdx, txWaker, cand, attempts, reqNo, npdus,
                   pushed, myIdx, curIdx, retries, yielded, woken, was, got,
                   txv, rxv, netv, acc, txCount, rt0, idxSince, rejected>>

\* BufBegin(R, Parse): first_pdu() reads header, checks command and index against the handle
ParseBuf(a) ==
    /\ pc[a] = "parse_buf"
    /\ LET c == cand[a] IN
       /\ acc' = [acc EXCEPT ![c] = @ \cup {a}]
       /\ got' = [got EXCEPT ![a] = IF bidx[c] = myIdx[a] /\ buf[c][1] # "zero"
                                    THEN buf[c] ELSE <<"bad", NoApp, 0>>]
    /\ pc' = [pc EXCEPT ![a] = "parse_end"]
    /\ UNCHANGED <<shared, cand, attempts, reqNo, npdus, pushed, myIdx, curIdx, retries, timer,
                   yielded, woken, was, result, txv, rxv, netv, owner, txCount, rt0, idxSince, rejected>>

\* The two accesses of ReceivedFrame::drop, in the order the code performs them
FirstDropPc == IF ClearFirst THEN "rf_fp" ELSE "rf_swap"

\* what follows the second of them
AfterDrop(a) ==
    IF ViewOwnsSlot \/ got[a][1] = "bad"
    THEN Finish(a, IF got[a][1] = "bad" THEN "parse_err" ELSE "ok")
    ELSE /\ pc' = [pc EXCEPT ![a] = "view"] /\ UNCHANGED <<result, timer>>

\* BufEnd.  Then either the view takes over the slot (ViewOwnsSlot, and only if the parse
\* succeeded) or the ReceivedFrame is dropped while the view lives on.
ParseEnd(a) ==
    /\ pc[a] = "parse_end"
    /\ acc' = [acc EXCEPT ![cand[a]] = @ \ {a}]
    /\ pc' = [pc EXCEPT ![a] = IF ViewOwnsSlot /\ got[a][1] # "bad" THEN "view" ELSE FirstDropPc]
    /\ UNCHANGED <<shared, cand, attempts, reqNo, npdus, pushed, myIdx, curIdx, retries, timer,
                   yielded, woken, was, result, got, txv, rxv, netv, owner, txCount, rt0, idxSince, rejected>>

\* SwapState(RxProcessing -> None) in ReceivedFrame::drop (panics if it fails)
RfSwap(a) ==
    /\ pc[a] = "rf_swap"
    /\ LET c == cand[a] IN
       IF st[c] = RxProcessing
       THEN /\ st' = [st EXCEPT ![c] = None]
            /\ IF ClearFirst
               THEN /\ owner' = [owner EXCEPT ![c] = IF @ = a THEN NoApp ELSE @]
                    /\ AfterDrop(a)
               ELSE /\ pc' = [pc EXCEPT ![a] = "rf_fp"]
                    /\ UNCHANGED <<result, timer, owner>>
       ELSE /\ UNCHANGED <<st, owner>>
            /\ Finish(a, "panic")
    /\ UNCHANGED <<fp, plen, wk, buf, bidx, frameIdx, pduIdx, txWaker, cand, attempts, reqNo, npdus,
                   pushed, myIdx, curIdx, retries, yielded, woken, was, got,
                   txv, rxv, netv, acc, txCount, rt0, idxSince, rejected>>

\* FpClear
RfFp(a) ==
    /\ pc[a] = "rf_fp"
    /\ fp' = [fp EXCEPT ![cand[a]] = EMPTY]
    /\ IF ClearFirst
       THEN /\ pc' = [pc EXCEPT ![a] = "rf_swap"] /\ UNCHANGED <<result, timer, owner>>
       ELSE /\ owner' = [owner EXCEPT ![cand[a]] = IF @ = a THEN NoApp ELSE @]
            /\ AfterDrop(a)
    /\ UNCHANGED <<st, plen, wk, buf, bidx, frameIdx, pduIdx, txWaker, cand, attempts, reqNo, npdus,
                   pushed, myIdx, curIdx, retries, yielded, woken, was, got,
                   txv, rxv, netv, acc, txCount, rt0, idxSince, rejected>>

\* Harness: the caller lets go of its view
ViewDrop(a) ==
    /\ pc[a] = "view"
    /\ IF ViewOwnsSlot
       THEN /\ pc' = [pc EXCEPT ![a] = FirstDropPc] /\ UNCHANGED <<result, timer>>
       ELSE Finish(a, "ok")
    /\ UNCHANGED <<shared, cand, attempts, reqNo, npdus, pushed, myIdx, curIdx, retries,
                   yielded, woken, was, got, txv, rxv, netv, ghost>>

AppStep(a) ==
    \/ \E np \in 1..MaxPdus, rt \in RetrySet : StartReq(a, np, rt)
    \/ AllocFetch(a) \/ AllocClaim(a) \/ InitMeta(a) \/ InitBuf(a) \/ InitEnd(a)
    \/ PushStart(a) \/ PushIdx(a) \/ PushBuf(a) \/ PushFp(a) \/ PushEnd(a)
    \/ DropCreatedStart(a) \/ DropCreated(a)
    \/ MarkStart(a) \/ HdrBuf(a) \/ HdrEnd(a) \/ Mark(a) \/ MarkDrop(a) \/ WakeTx(a)
    \/ RegWaker(a) \/ PollSwap(a) \/ TimerPoll(a) \/ RecheckSwap(a) \/ Release(a) \/ RetryMark(a) \/ RetryWake(a)
    \/ Repoll(a) \/ AbandonStart(a) \/ DropFut(a)
    \/ ParseBuf(a) \/ ParseEnd(a) \/ RfSwap(a) \/ RfFp(a) \/ ViewDrop(a)

-----------------------------------------------------------------------------
(* Transmit task: the loop every network driver runs around PduTx.          *)

TxRun ==
    /\ txpc = "tx_idle" /\ txWoken
    /\ txWoken' = FALSE
    /\ txpc' = "tx_reg"
    /\ UNCHANGED <<shared, appv, txScan, txClaim, txOutcome, sendFails, rxv, netv, ghost>>

\* RegTxWaker
TxReg ==
    /\ txpc = "tx_reg"
    /\ txWaker' = TRUE
    /\ txpc' = "tx_scan" /\ txScan' = 0
    /\ UNCHANGED <<st, fp, plen, wk, buf, bidx, frameIdx, pduIdx, appv, txClaim, txWoken, txOutcome,
                   sendFails, rxv, netv, ghost>>

\* SwapState(Sendable -> Sending) on slot txScan
TxScanStep ==
    /\ txpc = "tx_scan"
    /\ IF st[txScan] = Sendable
       THEN /\ st' = [st EXCEPT ![txScan] = Sending]
            /\ txClaim' = txScan
            /\ txpc' = "tx_send_buf"
            /\ UNCHANGED txScan
       ELSE /\ UNCHANGED <<st, txClaim>>
            /\ IF txScan + 1 = N
               THEN /\ txpc' = "tx_idle" /\ txScan' = 0
               ELSE /\ txpc' = "tx_scan" /\ txScan' = txScan + 1
    /\ UNCHANGED <<fp, plen, wk, buf, bidx, frameIdx, pduIdx, txWaker, appv, txWoken, txOutcome,
                   sendFails, rxv, netv, ghost>>

\* BufBegin(R, Send): the send closure runs on the bytes of the frame
TxSendBuf(outcome) ==
    /\ txpc = "tx_send_buf"
    /\ outcome \in {"ok", "fail"}
    /\ outcome = "fail" => sendFails < SendFailBudget
    /\ LET c == txClaim IN
       /\ acc' = [acc EXCEPT ![c] = @ \cup {TX}]
       /\ IF outcome = "ok"
          THEN /\ wire' = wire \cup {<<nextFrameId, bidx[c], buf[c]>>}
               /\ nextFrameId' = nextFrameId + 1
               /\ txCount' = [a \in Apps |->
                                IF buf[c] = Req(a, reqNo[a]) THEN txCount[a] + 1 ELSE txCount[a]]
               /\ UNCHANGED sendFails
          ELSE /\ sendFails' = sendFails + 1
               /\ UNCHANGED <<wire, nextFrameId, txCount>>
    /\ txOutcome' = outcome
    /\ txpc' = "tx_send_end"
    /\ UNCHANGED <<shared, appv, txScan, txClaim, txWoken, rxv, dups, owner, rt0, idxSince, rejected>>

\* BufEnd
TxSendEnd ==
    /\ txpc = "tx_send_end"
    /\ acc' = [acc EXCEPT ![txClaim] = @ \ {TX}]
    /\ txpc' = IF txOutcome = "ok" THEN "tx_mark" ELSE "tx_unclaim"
    /\ UNCHANGED <<shared, appv, txScan, txClaim, txWoken, txOutcome, sendFails, rxv, netv,
                   owner, txCount, rt0, idxSince, rejected>>

\* mark_sent: SetState(Sent), or with TxCas SwapState(Sending -> Sent)
TxMark ==
    /\ txpc = "tx_mark"
    /\ st' = [st EXCEPT ![txClaim] = IF TxCas /\ @ # Sending THEN @ ELSE Sent]
    /\ txpc' = "tx_scan" /\ txScan' = 0 /\ txClaim' = NoSlot
    /\ UNCHANGED <<fp, plen, wk, buf, bidx, frameIdx, pduIdx, txWaker, appv, txWoken, txOutcome,
                   sendFails, rxv, netv, ghost>>

\* release_sending_claim: SetState(Sendable), or with TxCas SwapState(Sending -> Sendable)
TxUnclaim ==
    /\ txpc = "tx_unclaim"
    /\ st' = [st EXCEPT ![txClaim] = IF TxCas /\ @ # Sending THEN @ ELSE Sendable]
    /\ txpc' = "tx_scan" /\ txScan' = 0 /\ txClaim' = NoSlot
    /\ UNCHANGED <<fp, plen, wk, buf, bidx, frameIdx, pduIdx, txWaker, appv, txWoken, txOutcome,
                   sendFails, rxv, netv, ghost>>

TxStep ==
    \/ TxRun \/ TxReg \/ TxScanStep
    \/ \E o \in {"ok", "fail"} : TxSendBuf(o)
    \/ TxSendEnd \/ TxMark \/ TxUnclaim

-----------------------------------------------------------------------------
(* Receive task.  A frame taken from the wire has been answered by the      *)
(* segment: content Req(a,k) comes back as Resp(a,k).                       *)

Answer(c) == IF c[1] = "req" THEN Resp(c[2], c[3]) ELSE c

\* Harness: hand one frame from the wire to receive_frame(); dup = leave a copy on the wire
RxTake(f, dup) ==
    /\ rxpc = "rx_idle"
    /\ f \in wire
    /\ EarlyResponse \/ ~(f[1] = nextFrameId - 1 /\ txpc \in {"tx_send_end", "tx_mark"})
    /\ dup \in BOOLEAN
    /\ dup => dups < DupBudget
    /\ wire' = IF dup THEN wire ELSE wire \ {f}
    /\ dups' = IF dup THEN dups + 1 ELSE dups
    /\ rxHand' = <<f[1], f[2], Answer(f[3])>>
    /\ IF f[3][1] = "zero"
       THEN /\ rxpc' = "rx_idle" /\ UNCHANGED rxScan      \* empty EtherCAT frame: Ignored
       ELSE /\ rxpc' = "rx_scan" /\ rxScan' = 0
    /\ UNCHANGED <<shared, appv, txv, rxMatch, nextFrameId, ghost>>

\* the scan moves on to the next slot, or gives up with Err(Decode)
RxScanAdvance ==
    /\ UNCHANGED rxMatch
    /\ IF rxScan + 1 = N
       THEN /\ rxpc' = "rx_idle" /\ rxScan' = 0
            /\ rejected' = IF \E t \in Slots : Awaiting(t) THEN rejected + 1 ELSE rejected
       ELSE /\ rxpc' = "rx_scan" /\ rxScan' = rxScan + 1 /\ UNCHANGED rejected

\* FpLoad(slot rxScan): first_pdu_is(search)
RxScanStep ==
    /\ rxpc = "rx_scan"
    /\ IF fp[rxScan] = rxHand[2]
       THEN IF SentOnly
            THEN /\ rxpc' = "rx_scan_st" /\ UNCHANGED <<rxScan, rxMatch, rejected>>
            ELSE /\ rxMatch' = rxScan /\ rxpc' = "rx_claim" /\ UNCHANGED <<rxScan, rejected>>
       ELSE RxScanAdvance
    /\ UNCHANGED <<shared, appv, txv, rxHand, netv, acc, owner, txCount, rt0, idxSince>>

\* StLoad(slot rxScan): is the slot waiting for a response?
RxScanSt ==
    /\ rxpc = "rx_scan_st"
    /\ IF st[rxScan] = Sent
       THEN /\ rxMatch' = rxScan /\ rxpc' = "rx_claim" /\ UNCHANGED <<rxScan, rejected>>
       ELSE RxScanAdvance
    /\ UNCHANGED <<shared, appv, txv, rxHand, netv, acc, owner, txCount, rt0, idxSince>>

\* SwapState(Sent -> RxBusy)
RxClaim ==
    /\ rxpc = "rx_claim"
    /\ IF st[rxMatch] = Sent
       THEN /\ st' = [st EXCEPT ![rxMatch] = RxBusy] /\ rxpc' = "rx_copy_buf"
            /\ UNCHANGED rejected
       ELSE /\ UNCHANGED st /\ rxpc' = "rx_idle"             \* Err(InvalidIndex)
            /\ rejected' = IF \E t \in Slots : Awaiting(t) THEN rejected + 1 ELSE rejected
    /\ UNCHANGED <<fp, plen, wk, buf, bidx, frameIdx, pduIdx, txWaker, appv, txv, rxScan, rxHand,
                   rxMatch, netv, acc, owner, txCount, rt0, idxSince>>

\* BufBegin(W, RxCopy)
RxCopyBuf ==
    /\ rxpc = "rx_copy_buf"
    /\ buf' = [buf EXCEPT ![rxMatch] = rxHand[3]]
    /\ bidx' = [bidx EXCEPT ![rxMatch] = rxHand[2]]
    /\ acc' = [acc EXCEPT ![rxMatch] = @ \cup {RX}]
    /\ rxpc' = "rx_copy_end"
    /\ UNCHANGED <<st, fp, plen, wk, frameIdx, pduIdx, txWaker, appv, txv, rxScan, rxHand, rxMatch,
                   netv, owner, txCount, rt0, idxSince, rejected>>

\* BufEnd
RxCopyEnd ==
    /\ rxpc = "rx_copy_end"
    /\ acc' = [acc EXCEPT ![rxMatch] = @ \ {RX}]
    /\ rxpc' = "rx_mark"
    /\ UNCHANGED <<shared, appv, txv, rxScan, rxHand, rxMatch, netv, owner, txCount, rt0, idxSince, rejected>>

\* SwapState(RxBusy -> RxDone)
RxMark ==
    /\ rxpc = "rx_mark"
    /\ IF st[rxMatch] = RxBusy
       THEN /\ st' = [st EXCEPT ![rxMatch] = RxDone] /\ rxpc' = "rx_wake"
       ELSE /\ UNCHANGED st /\ rxpc' = "rx_idle"             \* Err(InvalidFrameState)
    /\ UNCHANGED <<fp, plen, wk, buf, bidx, frameIdx, pduIdx, txWaker, appv, txv, rxScan, rxHand,
                   rxMatch, netv, ghost>>

\* Wake: waker.take() and wake
RxWake ==
    /\ rxpc = "rx_wake"
    /\ LET w == wk[rxMatch] IN
       IF w # NoApp
       THEN /\ woken' = [woken EXCEPT ![w] = TRUE] /\ wk' = [wk EXCEPT ![rxMatch] = NoApp]
       ELSE UNCHANGED <<woken, wk>>
    /\ rxpc' = "rx_idle"
    /\ UNCHANGED <<st, fp, plen, buf, bidx, frameIdx, pduIdx, txWaker, pc, cand, attempts, reqNo,
                   npdus, pushed, myIdx, curIdx, retries, timer, yielded, was, result, got,
                   txv, rxScan, rxHand, rxMatch, netv, ghost>>

RxStep ==
    \/ \E f \in wire, d \in BOOLEAN : RxTake(f, d)
    \/ RxScanStep \/ RxScanSt \/ RxClaim \/ RxCopyBuf \/ RxCopyEnd \/ RxMark \/ RxWake

-----------------------------------------------------------------------------
(* Environment *)

\* The deadline of a's request passes.  Wakes the task if its timer registered with the clock.
TimerFire(a) ==
    /\ AllowTimer /\ a \in TimerApps
    /\ timer[a] = "armed"
    /\ timer' = [timer EXCEPT ![a] = "fired"]
    /\ woken' = [woken EXCEPT ![a] = IF yielded[a] THEN TRUE ELSE @]
    /\ UNCHANGED <<shared, pc, cand, attempts, reqNo, npdus, pushed, myIdx, curIdx, retries,
                   yielded, was, result, got, txv, rxv, netv, ghost>>

NetLose(f) ==
    /\ AllowLose
    /\ f \in wire
    /\ wire' = wire \ {f}
    /\ UNCHANGED <<shared, appv, txv, rxv, nextFrameId, dups, ghost>>

EnvStep ==
    \/ \E a \in Apps : TimerFire(a)
    \/ \E f \in wire : NetLose(f)

Next == (\E a \in Apps : AppStep(a)) \/ TxStep \/ RxStep \/ EnvStep

-----------------------------------------------------------------------------
(* The same next-state relation indexed by (process, choice), which is how   *)
(* the harness names a step: p in Apps, TXP, RXP, or an environment action;  *)
(* c is the decision taken at a harness-level point (0 at a yield point).    *)

TXP == Cardinality(Apps)
RXP == Cardinality(Apps) + 1
ENVTIMER == -1
ENVLOSE == -2

AppHookStep(a) ==
    \/ AllocFetch(a) \/ AllocClaim(a) \/ InitMeta(a) \/ InitBuf(a) \/ InitEnd(a)
    \/ PushIdx(a) \/ PushBuf(a) \/ PushFp(a) \/ PushEnd(a) \/ DropCreated(a)
    \/ HdrBuf(a) \/ HdrEnd(a) \/ Mark(a) \/ MarkDrop(a) \/ WakeTx(a)
    \/ RegWaker(a) \/ PollSwap(a) \/ TimerPoll(a) \/ RecheckSwap(a) \/ Release(a) \/ RetryMark(a) \/ RetryWake(a)
    \/ DropFut(a) \/ ParseBuf(a) \/ ParseEnd(a) \/ RfSwap(a) \/ RfFp(a)

PStep(p, c) ==
    IF p \in Apps THEN
        CASE pc[p] = "idle"    -> c > 0 /\ StartReq(p, (c - 1) % 8, (c - 1) \div 8)
          [] pc[p] = "created" -> \/ c = 1 /\ PushStart(p)
                                  \/ c = 2 /\ MarkStart(p)
                                  \/ c = 3 /\ DropCreatedStart(p)
          [] pc[p] = "parked"  -> \/ c = 1 /\ Repoll(p)
                                  \/ c = 2 /\ AbandonStart(p)
          [] pc[p] = "view"    -> c = 2 /\ ViewDrop(p)
          [] OTHER             -> c = 0 /\ AppHookStep(p)
    ELSE IF p = TXP THEN
        CASE txpc = "tx_idle"     -> c = 1 /\ TxRun
          [] txpc = "tx_send_buf" -> TxSendBuf(IF c = 0 THEN "ok" ELSE "fail")
          [] OTHER                -> c = 0 /\ (TxReg \/ TxScanStep \/ TxSendEnd \/ TxMark \/ TxUnclaim)
    ELSE IF p = RXP THEN
        CASE rxpc = "rx_idle" -> c > 0 /\ \E f \in wire : f[1] = (c - 1) \div 2
                                                         /\ RxTake(f, (c - 1) % 2 = 1)
          [] OTHER            -> c = 0 /\ (RxScanStep \/ RxScanSt \/ RxClaim \/ RxCopyBuf \/ RxCopyEnd
                                           \/ RxMark \/ RxWake)
    ELSE IF p = ENVTIMER THEN c \in Apps /\ TimerFire(c)
    ELSE IF p = ENVLOSE THEN \E f \in wire : f[1] = c /\ NetLose(f)
    ELSE FALSE

\* The yield point (or harness point) at which process p is parked
SiteOfPc(p, pcv, txpcv, rxpcv) ==
    IF p \in Apps THEN
        CASE pcv[p] \in {"idle", "created", "parked", "view"} -> pcv[p]
          [] pcv[p] = "alloc_fetch" -> "AllocFetch"
          [] pcv[p] \in {"alloc_claim", "drop_created", "mark_drop", "poll_swap", "rf_swap", "recheck"} -> "SwapState"
          [] pcv[p] = "retry_set" -> IF Recheck THEN "SwapState" ELSE "SetState"
          [] pcv[p] = "init_meta" -> "InitMeta"
          [] pcv[p] \in {"init_buf", "push_buf", "hdr_buf", "parse_buf"} -> "BufBegin"
          [] pcv[p] \in {"init_end", "push_end", "hdr_end", "parse_end"} -> "BufEnd"
          [] pcv[p] = "push_idx" -> "PduIdxFetch"
          [] pcv[p] = "push_fp" -> "FpSet"
          [] pcv[p] \in {"mark", "release", "drop_fut"} -> "SetState"
          [] pcv[p] \in {"wake_tx", "retry_wake"} -> "WakeTx"
          [] pcv[p] = "reg_waker" -> "RegWaker"
          [] pcv[p] = "timer_poll" -> "TimerPoll"
          [] pcv[p] = "rf_fp" -> "FpClear"
          [] OTHER -> "?"
    ELSE IF p = TXP THEN
        CASE txpcv = "tx_idle" -> "tx_idle"
          [] txpcv = "tx_reg" -> "RegTxWaker"
          [] txpcv = "tx_scan" -> "SwapState"
          [] txpcv = "tx_send_buf" -> "BufBegin"
          [] txpcv = "tx_send_end" -> "BufEnd"
          [] txpcv \in {"tx_mark", "tx_unclaim"} -> IF TxCas THEN "SwapState" ELSE "SetState"
          [] OTHER -> "?"
    ELSE IF p = RXP THEN
        CASE rxpcv = "rx_idle" -> "rx_idle"
          [] rxpcv = "rx_scan" -> "FpLoad"
          [] rxpcv = "rx_scan_st" -> "StLoad"
          [] rxpcv \in {"rx_claim", "rx_mark"} -> "SwapState"
          [] rxpcv = "rx_copy_buf" -> "BufBegin"
          [] rxpcv = "rx_copy_end" -> "BufEnd"
          [] rxpcv = "rx_wake" -> "Wake"
          [] OTHER -> "?"
    ELSE "env"

SiteOf(p) == SiteOfPc(p, pc, txpc, rxpc)

Spec == Init /\ [][Next]_vars

\* every process keeps running and time keeps passing
FairSpec ==
    /\ Spec /\ WF_vars(TxStep) /\ WF_vars(RxStep)
    /\ \A a \in Apps : WF_vars(AppStep(a)) /\ WF_vars(TimerFire(a))

\* C06 "never hanging" / C01 "the caller completes": every request resolves
Resolves == \A a \in Apps : [](pc[a] # "idle" => <>(pc[a] = "idle"))

-----------------------------------------------------------------------------
(* Type invariant *)

TypeOK ==
    /\ st \in [Slots -> 0..7]
    /\ fp \in [Slots -> (0..(IdxMod - 1)) \cup {EMPTY}]
    /\ frameIdx \in Slots
    /\ pduIdx \in 0..(IdxMod - 1)
    /\ \A s \in Slots : acc[s] \subseteq (Apps \cup {TX, RX})

-----------------------------------------------------------------------------
(* C02 - a frame buffer never has two parties inside it at once             *)

MutualExclusion == \A s \in Slots : Cardinality(acc[s]) <= 1

\* A task that holds a view is "inside" whenever somebody else writes
ViewHolders(s) == {a \in Apps : pc[a] = "view" /\ cand[a] = s}

NoWriterWhileViewed ==
    \A s \in Slots : ViewHolders(s) # {} => acc[s] \subseteq ViewHolders(s)

\* None -> Created only while nobody owns the slot (checked on the transition)
ClaimOnlyWhenFree ==
    [][\A s \in Slots : (st[s] = None /\ st'[s] = Created) => owner[s] = NoApp /\ acc[s] = {}]_vars

Edges == { <<None, Created>>, <<Created, Sendable>>, <<Created, None>>, <<Sendable, Sending>>,
           <<Sending, Sent>>, <<Sending, Sendable>>, <<Sent, RxBusy>>, <<RxBusy, RxDone>>,
           <<RxDone, RxProcessing>>, <<RxProcessing, None>> }

LifecycleOrder ==
    [][\A s \in Slots : st'[s] # st[s] => <<st[s], st'[s]>> \in Edges]_vars

\* With deadlines / abandonment the future may also take a waiting frame back
EdgesC06 == Edges \cup { <<Sendable, None>>, <<Sent, None>>, <<Sent, Sendable>>,
                         <<Sendable, Sendable>> }

-----------------------------------------------------------------------------
(* C01 - every response reaches exactly the request that caused it          *)

\* The 8-bit wire index assumption, scaled to IdxMod
IndexAssumption == \A a \in Apps : idxSince[a] <= IdxMod - 1

NoGenuineReject == rejected = 0

NoMisroute ==
    \A a \in Apps :
        (pc[a] \in {"parse_end", "view", "rf_swap", "rf_fp"} /\ got[a][1] # "bad")
            => got[a] = Resp(a, reqNo[a])

\* While the caller holds its view the buffer keeps showing the response
ViewStable ==
    \A a \in Apps : pc[a] = "view" => buf[cand[a]] = Resp(a, reqNo[a])

\* A finished request that reported ok really saw its own response
OkIsOwn == \A a \in Apps : result[a] = "ok" => got[a] = Resp(a, reqNo[a])

\* No lost wake-up: a received response with its owner parked, unwoken and unregistered
NoLostWake ==
    \A a \in Apps :
        ~ ( /\ pc[a] = "parked" /\ ~woken[a]
            /\ st[cand[a]] = RxDone /\ owner[cand[a]] = a
            /\ wk[cand[a]] # a
            /\ rxpc # "rx_wake" )

-----------------------------------------------------------------------------
(* C03 - slots are always returned                                          *)

Quiescent ==
    /\ \A a \in Apps : pc[a] = "idle"
    /\ txpc = "tx_idle" /\ ~txWoken
    /\ rxpc = "rx_idle"
    /\ wire = {}

NoLeak == Quiescent => \A s \in Slots : st[s] = None

\* allocation fails only if every slot was seen busy; weaker state form: when a task gives up
\* it has seen 2N failed claims (by construction) - the interesting part is that a slot is None
\* only when nobody owns it
FreeMeansUnowned == \A s \in Slots : st[s] = None => owner[s] = NoApp

-----------------------------------------------------------------------------
(* C06 - deadlines                                                          *)

TimeoutNeverOk == \A a \in Apps : result[a] = "ok" => got[a] = Resp(a, reqNo[a])

\* transmissions of one request never exceed 1 + configured retries
TxCountBound == \A a \in Apps : txCount[a] <= 1 + rt0[a]

\* a request that ended in a timeout was transmitted exactly 1 + retries times, provided the
\* transmit task serviced every sendable frame before the deadline passed (TxPrompt constraint)
TxCountExact == \A a \in Apps : result[a] = "timeout" => txCount[a] = 1 + rt0[a]

\* the assumption of the transmission-count clause, as an action constraint: a deadline passes
\* only while its request waits for the response (task parked, frame sent) - never while the
\* frame still waits for, or is in the hands of, the transmit task
TxPromptAct ==
    \A a \in Apps : (timer[a] = "armed" /\ timer'[a] = "fired") =>
                        (pc[a] = "parked" /\ st[cand[a]] = Sent)

\* no slot is busy without somebody who will release it
NoOrphan == \A s \in Slots : st[s] # None => owner[s] # NoApp

\* band A of the known finding "request given up while TX/RX is inside its buffer"
NoReleaseInside ==
    \A a \in Apps : pc[a] \in {"release", "retry_set", "drop_fut"} =>
                       st[cand[a]] \notin {Sending, RxBusy}

========================================================================
=====
