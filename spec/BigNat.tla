-------------------------------- MODULE BigNat --------------------------------
(***************************************************************************)
(* Natural numbers beyond TLC's 32-bit integers, as little-endian sequences *)
(* of base-256 digits.  Used to re-verify 64-bit arithmetic observed in     *)
(* executions: the harness supplies quotient witnesses, the specification   *)
(* checks the products and sums.                                            *)
(***************************************************************************)
EXTENDS Naturals, Integers, Sequences

\* 16-bit limbs (as the traces carry them) to bytes
FromLimbs(ls) == [i \in 1..(2 * Len(ls)) |-> IF i % 2 = 1 THEN ls[(i + 1) \div 2] % 256 ELSE ls[i \div 2] \div 256]

Digit(a, i) == IF i <= Len(a) THEN a[i] ELSE 0

RECURSIVE TrimZeros(_)
TrimZeros(a) == IF Len(a) > 0 /\ a[Len(a)] = 0 THEN TrimZeros(SubSeq(a, 1, Len(a) - 1)) ELSE a

Norm(a) == TrimZeros(a)

BEq(a, b) == Norm(a) = Norm(b)

RECURSIVE CmpFrom(_, _, _)
\* -1, 0, 1 comparing digits i..1
CmpFrom(a, b, i) ==
    IF i = 0 THEN 0
    ELSE IF Digit(a, i) < Digit(b, i) THEN -1
    ELSE IF Digit(a, i) > Digit(b, i) THEN 1
    ELSE CmpFrom(a, b, i - 1)

Max(x, y) == IF x > y THEN x ELSE y
BLt(a, b) == CmpFrom(a, b, Max(Len(a), Len(b))) = -1
BLe(a, b) == CmpFrom(a, b, Max(Len(a), Len(b))) # 1

RECURSIVE AddFrom(_, _, _, _, _)
AddFrom(a, b, i, n, carry) ==
    IF i > n THEN (IF carry = 0 THEN <<>> ELSE <<carry>>)
    ELSE LET s == Digit(a, i) + Digit(b, i) + carry IN
         <<s % 256>> \o AddFrom(a, b, i + 1, n, s \div 256)

BAdd(a, b) == AddFrom(a, b, 1, Max(Len(a), Len(b)), 0)

\* a * d for a single digit d
RECURSIVE MulDigitFrom(_, _, _, _)
MulDigitFrom(a, d, i, carry) ==
    IF i > Len(a) THEN (IF carry = 0 THEN <<>> ELSE <<carry % 256>> \o (IF carry >= 256 THEN <<carry \div 256>> ELSE <<>>))
    ELSE LET s == a[i] * d + carry IN <<s % 256>> \o MulDigitFrom(a, d, i + 1, s \div 256)

Shift(a, k) == [i \in 1..k |-> 0] \o a

RECURSIVE MulFrom(_, _, _)
MulFrom(a, b, j) ==
    IF j > Len(b) THEN <<>>
    ELSE BAdd(Shift(MulDigitFrom(a, b[j], 1, 0), j - 1), MulFrom(a, b, j + 1))

BMul(a, b) == MulFrom(a, b, 1)

Zero == <<>>
One == <<1>>

=============================================================================
