--------------------------- MODULE FrameBuildTrace ---------------------------
(***************************************************************************)
(* Conformance of the real frame builder with FrameBuild: every line of the *)
(* trace is one push program executed on a real CreatedFrame, with the      *)
(* answer of every push and the exact bytes the send closure received.      *)
(* The answers must be the ones ApplyOp predicts and the bytes must equal   *)
(* Encode of the model state - datagram by datagram, byte by byte.          *)
(***************************************************************************)
EXTENDS FrameBuild, Json, IOUtils

Rec == ndJsonDeserialize(IOEnv.TRACE)

VARIABLES l, bad

ASSUME TLCSet(3, 0)

\* fold the logged operations through the model
RECURSIVE Fold(_, _, _, _)
\* returns [pdus, errs]
Fold(c, ops, i, acc) ==
    IF i > Len(ops) THEN acc
    ELSE LET o == ops[i]
             ps == acc.pdus
         IN IF o.op = "push"
            THEN LET fits == PushFits(c.cap, ps, Len(o.data), o.ovr)
                     want == IF fits THEN "ok" ELSE "toolong"
                     e1 == IF o.res # want THEN {<<"push-result", i, want, o.res>>} ELSE {}
                     ps2 == IF o.res = "ok"
                            THEN Append(ps, [k |-> o.k, addr |-> o.addr, reg |-> o.reg, idx |-> o.idx,
                                             len |-> DeclLen(Len(o.data), o.ovr), data |-> o.data])
                            ELSE ps
                 IN Fold(c, ops, i + 1, [pdus |-> ps2, errs |-> acc.errs \cup e1])
            ELSE LET t == RestTake(c.cap, ps, Len(o.data))
                     want == IF t = 0 THEN "none" ELSE "some"
                     e1 == IF o.res # want \/ (o.res = "some" /\ o.took # t)
                           THEN {<<"rest-result", i, want, t, o.res, o.took>>} ELSE {}
                     ps2 == IF o.res = "some"
                            THEN Append(ps, [k |-> o.k, addr |-> o.addr, reg |-> o.reg, idx |-> o.idx,
                                             len |-> o.took, data |-> SubSeq(o.data, 1, o.took)])
                            ELSE ps
                 IN Fold(c, ops, i + 1, [pdus |-> ps2, errs |-> acc.errs \cup e1])

FirstDiff(a, b) ==
    LET n == IF Len(a) < Len(b) THEN Len(a) ELSE Len(b)
        d == {i \in 1..n : a[i] # b[i]}
    IN IF d = {} THEN n + 1 ELSE CHOOSE i \in d : \A j \in d : i <= j

CaseErrors(c) ==
    LET f == Fold(c, c.ops, 1, [pdus |-> <<>>, errs |-> {}])
        want == Encode(f.pdus)
        e2 == IF c.sent # want
              THEN {<<"bytes", FirstDiff(c.sent, want), Len(c.sent), Len(want)>>} ELSE {}
        e3 == IF Len(c.sent) > c.cap THEN {<<"exceeds-capacity", Len(c.sent), c.cap>>} ELSE {}
        e4 == IF "panic" \in DOMAIN c THEN {<<"panic", c.panic>>} ELSE {}
    IN f.errs \cup e2 \cup e3 \cup e4

TInit == l = 1 /\ bad = 0

TNext ==
    /\ l <= Len(Rec)
    /\ LET errs == CaseErrors(Rec[l]) IN
       /\ bad' = IF errs = {} THEN bad ELSE bad + 1
       /\ errs # {} => /\ PrintT(ToJson([kind |-> "VIOL", case |-> Rec[l].id, errs |-> ToString(errs)]))
                       /\ TLCSet(3, TLCGet(3) + 1)
    /\ l' = l + 1

TSpec == TInit /\ [][TNext]_<<l, bad>>

\* FrameBuild's own variables are not used by this module
UnusedInit == cap = 0 /\ pdus = <<>> /\ prog = <<>> /\ results = <<>> /\ nextIdx = 0 /\ done = FALSE

TraceInit == TInit /\ UnusedInit
TraceNext == TNext /\ UNCHANGED fbvars
TraceSpec == TraceInit /\ [][TraceNext]_<<l, bad, fbvars>>

Done == l = Len(Rec) + 1

Report ==
    PrintT(ToJson([kind |-> "SUMMARY", cases |-> Len(Rec), bad |-> TLCGet(3),
                   consumed |-> TLCGet("stats").diameter - 1]))

=============================================================================
