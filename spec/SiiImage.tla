------------------------------ MODULE SiiImage ------------------------------
(***************************************************************************)
(* What a SubDevice's EEPROM (SII) image encodes: the fixed header words    *)
(* (ETG1000.6 table 16 / ETG2010 table 2) and the category list (strings,   *)
(* general, FMMU, sync managers, FMMU_EX, TxPDO / RxPDO), written as        *)
(* functions of the image bytes.  This is the specification of the          *)
(* *format*; the parser in src/subdevice/eeprom.rs is checked against it    *)
(* by SiiImageTrace (C12, second sentence).                                 *)
(*                                                                         *)
(* Every query yields a record [k, v]: k is "Ok" / "Some" / "None" / "Err"  *)
(* (v = error name then), v a sequence of numbers or of items (sequences).  *)
(* The limits are those of the MainDevice's containers: 8 sync managers, 16 *)
(* FMMUs, 16 FMMU_EX entries, 64 PDOs per direction, 64 / 128 bytes for     *)
(* name / description.                                                      *)
(***************************************************************************)
EXTENDS Naturals, Integers, Sequences, FiniteSets, TLC

\* ---- bytes and words --------------------------------------------------------------------
\* byte `i` (0-based) of the image; the device's memory beyond the stored prefix reads 0xFF
B(img, i) == IF i < Len(img) THEN img[i + 1] ELSE 255
W16(img, off) == B(img, off) + 256 * B(img, off + 1)

CatStrings == 10
CatGeneral == 30
CatFmmu == 40
CatSyncM == 41
CatFmmuEx == 42
CatTxPdo == 50
CatRxPdo == 51
CatEnd == 65535

FirstCategory == 128          \* byte offset of word 0x40

\* ---- the category list ------------------------------------------------------------------
\* sequence of [type, start (byte offset of the data), len (bytes)] up to the end marker
RECURSIVE CatWalk(_, _, _)
CatWalk(img, off, fuel) ==
    IF fuel = 0 \/ off + 4 > 131072 THEN <<>>
    ELSE LET ty == W16(img, off)
             ln == 2 * W16(img, off + 2)
         IN IF ty = CatEnd THEN <<>>
            ELSE <<[type |-> ty, start |-> off + 4, len |-> ln]>> \o CatWalk(img, off + 4 + ln, fuel - 1)

Cats(img) == CatWalk(img, FirstCategory, 200)

HasCat(img, ty) == \E i \in 1..Len(Cats(img)) : Cats(img)[i].type = ty
Cat(img, ty) == LET cs == Cats(img) IN cs[CHOOSE i \in 1..Len(cs) : cs[i].type = ty /\ \A j \in 1..(i - 1) : cs[j].type # ty]

Ok(v) == [k |-> "Ok", v |-> v]
Err(e) == [k |-> "Err", v |-> e]
Some(v) == [k |-> "Some", v |-> v]
None == [k |-> "None", v |-> <<>>]

\* ---- fixed header -----------------------------------------------------------------------
Alias(img) == Ok(<<W16(img, 8)>>)
Size(img) == Ok(<<(W16(img, 124) + 1) * 128>>)
Identity(img) == Ok([i \in 1..8 |-> W16(img, 16 + 2 * (i - 1))])          \* vendor, product, revision, serial as 16-bit limbs
MailboxWords(img) == Ok(<<W16(img, 48), W16(img, 50), W16(img, 52), W16(img, 54), W16(img, 56) % 256>>)

\* ---- strings ----------------------------------------------------------------------------
\* the string table: sequence of byte strings
RECURSIVE StrWalk(_, _, _)
StrWalk(img, off, n) ==
    IF n = 0 THEN <<>>
    ELSE LET l == B(img, off) IN <<[j \in 1..l |-> B(img, off + j)]>> \o StrWalk(img, off + 1 + l, n - 1)

StringTable(img) ==
    IF ~HasCat(img, CatStrings) THEN <<>>
    ELSE LET c == Cat(img, CatStrings) IN StrWalk(img, c.start + 1, B(img, c.start))

\* as reported: NULs removed, anything that is not ASCII replaced by '?'
Clean(s) == LET kept == SelectSeq(s, LAMBDA b : b # 0) IN [i \in 1..Len(kept) |-> IF kept[i] >= 128 THEN 63 ELSE kept[i]]

\* string `idx` (1-based; 0 = no string) into a container of `cap` bytes
FindString(img, idx, cap) ==
    LET t == StringTable(img) IN
    IF idx = 0 \/ ~HasCat(img, CatStrings) \/ idx > Len(t) THEN None
    ELSE IF Len(t[idx]) > cap THEN Err("StringTooLong")
    ELSE Some(Clean(t[idx]))

\* ---- general ----------------------------------------------------------------------------
S16(x) == IF x >= 32768 THEN x - 65536 ELSE x

General(img) ==
    IF ~HasCat(img, CatGeneral) THEN Err("Eeprom(NoCategory)")
    ELSE LET c == Cat(img, CatGeneral)
             b(i) == B(img, c.start + i)
         IN IF c.len < 20 THEN Err("Eeprom(SectionOverrun)")
            ELSE Ok(<<b(0), b(1), b(2), b(3), b(5), b(6) % 2, b(7) % 2, b(11), S16(b(12) + 256 * b(13)),
                      b(16) % 16, b(16) \div 16, b(17) % 16, b(17) \div 16, b(18) + 256 * b(19)>>)

\* the part of the general category the MainDevice reports on (string indices, mailbox details, flags, current)
GeneralReported(img) == IF General(img).k = "Ok" THEN Ok(SubSeq(General(img).v, 1, 9)) ELSE General(img)

\* the name is the order string, the description the name string (what the MainDevice reports)
Name(img) ==
    IF ~HasCat(img, CatGeneral) THEN None
    ELSE IF General(img).k # "Ok" THEN General(img) ELSE FindString(img, General(img).v[3], 64)
Description(img) ==
    IF General(img).k # "Ok" THEN General(img) ELSE FindString(img, General(img).v[4], 128)

\* ---- sync managers ----------------------------------------------------------------------
\* usage the MainDevice works with: the stored type, or - if that is 0 - derived from mode and direction
EffectiveUsage(usage, mode, dir) ==
    IF usage # 0 THEN usage
    ELSE IF mode = 0 THEN (IF dir = 0 THEN 4 ELSE 3) ELSE (IF dir = 0 THEN 2 ELSE 1)

SmItem(img, off) ==
    LET ctl == B(img, off + 4)
        mode == ctl % 4
        dir == (ctl \div 4) % 4
        usage == B(img, off + 7)
    IN <<W16(img, off), W16(img, off + 2), mode, dir, (ctl \div 16) % 2, (ctl \div 32) % 2, (ctl \div 64) % 2,
         B(img, off + 6), usage, EffectiveUsage(usage, mode, dir)>>

SyncManagers(img) ==
    IF ~HasCat(img, CatSyncM) THEN Ok(<<>>)
    ELSE LET c == Cat(img, CatSyncM)
             n == c.len \div 8
         IN IF n > 8 THEN Err("Capacity(SyncManager)") ELSE Ok([i \in 1..n |-> SmItem(img, c.start + 8 * (i - 1))])

\* ---- FMMUs ------------------------------------------------------------------------------
Fmmus(img) ==
    IF ~HasCat(img, CatFmmu) THEN Ok(<<>>)
    ELSE LET c == Cat(img, CatFmmu)
             n == IF c.len > 16 THEN 16 ELSE c.len
         IN Ok([i \in 1..n |-> <<IF B(img, c.start + i - 1) = 255 THEN 0 ELSE B(img, c.start + i - 1)>>])

FmmuMappings(img) ==
    IF ~HasCat(img, CatFmmuEx) THEN Ok(<<>>)
    ELSE LET c == Cat(img, CatFmmuEx)
             n == c.len \div 3
         IN IF n > 16 THEN Err("Capacity(FmmuEx)") ELSE Ok([i \in 1..n |-> <<B(img, c.start + 3 * (i - 1) + 1)>>])

\* ---- PDOs -------------------------------------------------------------------------------
\* sequence of <<index, number of entries, sync manager, bit length>>; <<-1>> if an entry list is cut short
RECURSIVE PdoWalk(_, _, _)
PdoWalk(img, off, end) ==
    IF off + 8 > end THEN <<>>
    ELSE LET n == B(img, off + 2)
             bits == LET F[j \in 0..n] == IF j = 0 THEN 0 ELSE F[j - 1] + B(img, off + 8 * j + 5) IN F[n]
         IN IF off + 8 + 8 * n > end THEN << <<-1>> >>
            ELSE <<<<W16(img, off), n, B(img, off + 3), bits>>>> \o PdoWalk(img, off + 8 + 8 * n, end)

Pdos(img, ty) ==
    IF ~HasCat(img, ty) THEN Ok(<<>>)
    ELSE LET c == Cat(img, ty)
             ps == PdoWalk(img, c.start, c.start + c.len)
         IN IF \E i \in 1..Len(ps) : ps[i][1] = -1 THEN Err("Eeprom(Decode)")
            ELSE IF Len(ps) > 64 THEN Err("Capacity(Pdo)") ELSE Ok(ps)

ReadPdos(img) == Pdos(img, CatTxPdo)          \* inputs: the device's transmit PDOs
WritePdos(img) == Pdos(img, CatRxPdo)

\* ---- every query by name ----------------------------------------------------------------
Query(img, name) ==
    CASE name = "alias" -> Alias(img)
      [] name = "size" -> Size(img)
      [] name = "identity" -> Identity(img)
      [] name = "mailbox" -> MailboxWords(img)
      [] name = "general" -> GeneralReported(img)
      [] name = "name" -> Name(img)
      [] name = "description" -> Description(img)
      [] name = "sync_managers" -> SyncManagers(img)
      [] name = "fmmus" -> Fmmus(img)
      [] name = "fmmu_mappings" -> FmmuMappings(img)
      [] name = "read_pdos" -> ReadPdos(img)
      [] name = "write_pdos" -> WritePdos(img)

=============================================================================
