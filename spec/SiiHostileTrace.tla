--------------------------- MODULE SiiHostileTrace ---------------------------
(***************************************************************************)
(* C13 on executions.  One trace line = one EEPROM image (blank, random,    *)
(* structured-then-mutated, adversarial) given to                           *)
(*   (1) the EEPROM parser directly, through an in-memory provider that     *)
(*       counts and logs every device access: all EEPROM-derived queries,   *)
(*   (2) a simulated device carrying the image, initialised and taken to OP *)
(*       by the real MainDevice,                                            *)
(* in a build with and a build without arithmetic overflow checks.          *)
(*                                                                         *)
(* Monitor (property clauses): every query and the initialisation end with  *)
(* a value, 'absent' or an error - no panic, no hang, no exhausted access   *)
(* budget - and each query stays within the access bound that follows from  *)
(* the format (AccessBound).                                                *)
(*                                                                         *)
(* Conformance: the logged device accesses are replayed against the         *)
(* category walk of SiiCategories (the repaired arithmetic: Checked): every *)
(* access must be a header read, the next step of a walk at the address the *)
(* model computes from the device-supplied length, or an access inside the  *)
(* window of the category the walk found.  What the parser was looking for  *)
(* is not logged: TLC infers it (a known category header is either the      *)
(* target or skipped).  One behaviour per trace line (multiple initial      *)
(* states); how far each replay got is kept in a TLC register.              *)
(***************************************************************************)
EXTENDS SiiCategories, Json, IOUtils

Rec == ndJsonDeserialize(IOEnv.TRACE)

VARIABLES ri, k, ws, wl
htvars == <<scvars, ri, k, ws, wl>>

ASSUME TLCSet(3, 0)
ASSUME TLCSet(4, 0)
ASSUME TLCSet(5, 0)
ASSUME TLCSet(6, [i \in 1..Len(Rec) |-> 0])

\* category types the parser searches for
Searched == {10, 30, 40, 41, 42, 50, 51}
EndType == 65535

\* ---- the bound on device accesses per query ------------------------------------------------
\* walk: every non-empty category advances the cursor by at least 3 words, at most 31 empty ones are tolerated
WalkBound == (W \div 3) + 32
\* data: at most 64 PDOs of at most 255 entries of 8 bytes, two 4-byte accesses each; 255 strings
DataBound == 64 * 256 * 2 + 2 * 256 + 64
\* device_name / device_description walk twice (General, then Strings)
AccessBound == 2 * WalkBound + DataBound

Failed(x) == x \in {"panic", "hang", "budget", "pending"}

QueryReads(r, i) == r.dump[i].reads - (IF i = 1 THEN 0 ELSE r.dump[i - 1].reads)

MonitorErrors(r) ==
    (IF Failed(r.result) THEN {<<"NotTotal", "parser", r.result, r.detail>>} ELSE {})
    \cup (IF Failed(r.init_result) THEN {<<"NotTotal", "init", r.init_result, r.detail>>} ELSE {})
    \cup (IF Failed(r.op_result) THEN {<<"NotTotal", "into_op", r.op_result, r.detail>>} ELSE {})
    \cup {<<"TooManyAccesses", r.dump[i].name, QueryReads(r, i)>> :
            i \in {i \in 1..Len(r.dump) : QueryReads(r, i) > AccessBound}}
    \cup (IF r.result = "ok" /\ Len(r.dump) # r.queries THEN {<<"QueriesMissing", Len(r.dump)>>} ELSE {})

\* ---- replay of the access log --------------------------------------------------------------
Log(r) == r.read_log

TInit ==
    \E i \in 1..Len(Rec) :
        /\ ri = i /\ k = 1
        /\ addr = First /\ mem = <<>> /\ empties = 0 /\ visits = 0 /\ status = "idle"
        /\ ws = 0 /\ wl = 0

TypeClasses(w0) ==
    IF w0 = EndType THEN {"end"} ELSE IF w0 \in Searched THEN {"target", "other"} ELSE {"other"}

\* inside the window of the category found (byte reads may touch the word just after it: the string table is
\* read byte-wise without an end check), with the 16-bit word address register wrapping
InWindow(a) == ((a - ws) % W) <= wl

Event == Log(Rec[ri])[k]

HeaderRead ==
    /\ status # "walking" /\ Event[1] < First
    /\ status' = "idle" /\ UNCHANGED <<addr, mem, empties, visits, ws, wl>>

RangeRead ==
    /\ status = "found" /\ InWindow(Event[1])
    /\ UNCHANGED <<scvars, ws, wl>>

WalkVisit(a, e) ==
    \E ty \in TypeClasses(Event[2]) :
        /\ Step(a, e, ty, Event[3])
        /\ visits' = visits + 1 /\ mem' = mem
        /\ IF ty = "target" THEN ws' = a + 2 /\ wl' = Event[3] ELSE UNCHANGED <<ws, wl>>

WalkStart == status # "walking" /\ Event[1] = First /\ WalkVisit(First, 0)
WalkStep == status = "walking" /\ Event[1] = addr /\ WalkVisit(addr, empties)

TNext ==
    /\ k <= Len(Log(Rec[ri]))
    /\ (HeaderRead \/ RangeRead \/ WalkStart \/ WalkStep)
    /\ k' = k + 1 /\ UNCHANGED ri

TraceSpec == TInit /\ [][TNext]_htvars

\* progress register: the longest prefix of each log that some branch explained
Track == TLCSet(6, [TLCGet(6) EXCEPT ![ri] = IF k > @ THEN k ELSE @])

Judge ==
    k = 1 /\ status = "idle" =>
        LET r == Rec[ri]  me == MonitorErrors(r) IN
        /\ TLCSet(5, TLCGet(5) + 1)
        /\ (me # {} => /\ PrintT(ToJson([kind |-> "VIOL", case |-> r.id, errs |-> ToString(me)]))
                       /\ TLCSet(3, TLCGet(3) + 1))

Report ==
    LET reached == TLCGet(6)
        bad == {i \in 1..Len(Rec) : reached[i] # Len(Log(Rec[i])) + 1}
    IN /\ \A i \in bad :
            PrintT(ToJson([kind |-> "DIVERGE", case |-> Rec[i].id,
                           errs |-> ToString(<<"access", reached[i], Log(Rec[i])[reached[i]]>>)]))
       /\ PrintT(ToJson([kind |-> "SUMMARY", cases |-> Len(Rec), judged |-> TLCGet(5), violations |-> TLCGet(3),
                         divergences |-> Cardinality(bad)]))

=============================================================================
