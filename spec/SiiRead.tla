------------------------------- MODULE SiiRead -------------------------------
(***************************************************************************)
(* Reading a range of a SubDevice's EEPROM (EepromRange in                  *)
(* src/eeprom/mod.rs, created by SubDeviceEeprom::start_at, used by         *)
(* SubDevice::eeprom_read_raw / eeprom_read): a window in bytes derived     *)
(* from a start WORD and a length in BYTES, filled chunk by chunk from a    *)
(* device that serves 4 or 8 bytes per access at word addresses.            *)
(*                                                                         *)
(* One action per device access.  CeilWindow = TRUE models the code after   *)
(* the "fix:" commit (window rounded up to whole words), FALSE the window   *)
(* of len_bytes / 2 words.                                                  *)
(***************************************************************************)
EXTENDS Naturals, Integers, Sequences, FiniteSets, TLC

CONSTANTS ImageLen,      \* bytes in the EEPROM image (even)
          Chunks,        \* subset of {4, 8}
          MaxLen,        \* request lengths 0..MaxLen
          CeilWindow

\* the image: byte i (0-based) has the value i + 1, so every byte is recognisable
Img(i) == IF i < ImageLen THEN (i % 255) + 1 ELSE 255       \* reads beyond the device's memory give 0xFF

VARIABLES chunk, startWord, len,        \* the request
          pos, endPos, out, want, accesses, pc

srvars == <<chunk, startWord, len, pos, endPos, out, want, accesses, pc>>

WindowWords(l) == IF CeilWindow THEN (l + 1) \div 2 ELSE l \div 2

SrInit ==
    /\ chunk \in Chunks
    /\ startWord \in 0..(ImageLen \div 2)
    /\ len \in 0..MaxLen
    /\ pos = 2 * startWord
    /\ endPos = 2 * startWord + 2 * WindowWords(len)
    /\ out = <<>>
    /\ want = len                         \* the caller's buffer has exactly `len` bytes
    /\ accesses = 0
    /\ pc = "read"

Min(a, b) == IF a < b THEN a ELSE b

\* one read_chunk(pos / 2): the device returns `chunk` bytes starting at the word address
ReadChunk ==
    /\ pc = "read"
    /\ LET room == Min(want - Len(out), endPos - pos) IN
       IF room <= 0 \/ endPos <= pos
       THEN pc' = "done" /\ UNCHANGED <<pos, out, accesses>>
       ELSE LET wordAddr == pos \div 2
                skip == pos % 2
                avail == chunk - skip
                take == Min(avail, room)
                bytes == [j \in 1..take |-> Img(2 * wordAddr + skip + j - 1)]
            IN /\ out' = out \o bytes
               /\ pos' = pos + take
               /\ accesses' = accesses + 1
               /\ pc' = IF take = room THEN "done" ELSE "read"
    /\ UNCHANGED <<chunk, startWord, len, endPos, want>>

SrNext == ReadChunk
SrSpec == SrInit /\ [][SrNext]_srvars

\* ---------------------------------------------------------------------------
\* C12, first sentence

Expected == [j \in 1..len |-> Img(2 * startWord + j - 1)]

\* exactly the bytes stored in the range - a shorter count is a legal `read`, wrong or extra bytes are not
ReturnsPrefixOfRange == pc = "done" => /\ Len(out) <= len
                                       /\ out = SubSeq(Expected, 1, Len(out))

\* ... and, because read_exact / typed reads need all of them, the whole range
ReturnsExactlyRange == pc = "done" => out = Expected

NeverBeyondWindow == pos <= endPos \/ endPos <= 2 * startWord

AccessesBounded == accesses <= (len \div (chunk - 1)) + 2

=============================================================================
