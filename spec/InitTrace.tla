------------------------------ MODULE InitTrace ------------------------------
(***************************************************************************)
(* Each trace line is one real MainDevice::init on a simulated segment.     *)
(* The line's network and configuration become the initial state of         *)
(* InitSeq; the specification runs to completion and its final state must   *)
(* agree with what the real call returned and with what the simulated       *)
(* devices hold afterwards.  The property clauses of C09 are evaluated on   *)
(* the recorded observations directly (Monitor), the agreement with the     *)
(* model state is the conformance part.                                     *)
(***************************************************************************)
EXTENDS InitSeq, Json, IOUtils

Rec == ndJsonDeserialize(IOEnv.TRACE)

VARIABLE ri

ASSUME TLCSet(3, 0)
ASSUME TLCSet(4, 0)
ASSUME TLCSet(5, 0)

Limb(x) == IF Len(x) = 1 THEN x[1] ELSE x[1] + 65536 * x[2]

DcName(x) == CASE x = "none" -> "None" [] x = "dc32" -> "Bits32" [] x = "dc64" -> "Bits64"
                 [] x \in {"ref32", "ref64"} -> "RefOnly" [] OTHER -> "?"

TInit ==
    \E i \in 1..Len(Rec) :
        LET c == Rec[i].case IN
        /\ ri = i
        /\ net = [j \in 1..Len(c.devices) |->
                    [tag |-> c.devices[j].tag, prior |-> c.devices[j].prior_addr, dc |-> c.devices[j].dc]]
        /\ station = [j \in 1..Len(c.devices) |-> c.devices[j].prior_addr]
        /\ al = [j \in 1..Len(c.devices) |-> INIT]
        /\ cfg = [groups |-> c.groups, filter |-> c.filter,
                  errorAt |-> IF c.filter = "error_at" THEN c.error_at ELSE 0, maxSub |-> c.max_subdevices]
        /\ pc = "count" /\ k = 0 /\ counted = 0
        /\ found = <<>>
        /\ groupsOut = [g \in 0..2 |-> <<>>]
        /\ result = "running"

TNext == IsNext /\ UNCHANGED ri

TraceSpec == TInit /\ [][TNext]_<<isvars, ri>>

\* ---- Monitor: C09 on the observations alone --------------------------------------------
AllObs(r) ==
    LET F[g \in 0..Len(r.groups)] == IF g = 0 THEN <<>> ELSE F[g - 1] \o r.groups[g]
    IN F[Len(r.groups)]

MonitorErrors(r) ==
    LET c == r.case
        n == Len(c.devices)
    IN (IF r.result \in {"panic", "hang", "budget"} THEN {<<"NotTotal", r.result>>} ELSE {})
       \cup (IF n > c.max_subdevices /\ r.result = "ok" THEN {<<"SilentTruncation", n, c.max_subdevices>>} ELSE {})
       \cup (IF n = 0 /\ ~(r.result = "ok" /\ AllObs(r) = <<>>) THEN {<<"EmptyNetwork", r.result>>} ELSE {})
       \* a network that fits, with a group filter that accepts every device, initialises
       \cup (IF n <= c.max_subdevices /\ c.filter # "error_at" /\ r.result \notin {"ok", "panic", "hang", "budget", "err:Capacity"}
             THEN {<<"InitFailed", r.result>>} ELSE {})
       \* a network that fits the declared capacity is not refused for lack of capacity
       \cup (IF n <= c.max_subdevices /\ r.result = "err:Capacity" /\ c.filter # "error_at"
             THEN {<<"FitsButRefused", n, c.max_subdevices>>} ELSE {})
       \cup (IF r.result = "ok" /\ n <= c.max_subdevices
             THEN LET obs == AllObs(r) IN
                  (IF Len(obs) # n THEN {<<"CountWrong", Len(obs), n>>} ELSE {})
                  \cup (IF \E i \in 1..n : r.devices_after[i].station # Base + (i - 1)
                        THEN {<<"StationAddress", [i \in 1..n |-> r.devices_after[i].station]>>} ELSE {})
                  \cup (IF \E i \in 1..n : Cardinality({j \in 1..Len(obs) : obs[j].addr = Base + (i - 1)}) # 1
                        THEN {<<"NotExactlyOnce">>} ELSE {})
                  \cup {<<"Identity", j>> : j \in {j \in 1..Len(obs) :
                            LET pos == obs[j].addr - Base IN
                            pos \in 0..(n - 1) /\
                            LET d == c.devices[pos + 1] IN
                            ~( /\ Limb(obs[j].serial) = 20480 + d.tag
                               /\ Limb(obs[j].vendor) = 2560 + d.tag
                               /\ Limb(obs[j].product) = 4096 + d.tag
                               /\ Limb(obs[j].revision) = d.tag
                               /\ obs[j].alias = d.alias
                               /\ obs[j].dc = DcName(d.dc)
                               /\ (d.named => obs[j].name = d.name)
                               \* the link state of each of the four ports, as the device's DL status has it
                               /\ obs[j].ports = r.devices_after[pos + 1].ports_open )}}
                  \cup (IF n > 0 /\ \E i \in 1..n : r.devices_after[i].al # PREOP
                        THEN {<<"NotPreOp", [i \in 1..n |-> r.devices_after[i].al]>>} ELSE {})
                  \cup (IF n > 0 /\ r.order.first_fp_access # -1
                           /\ r.order.last_station_write > r.order.first_fp_access
                        THEN {<<"ConfiguredReadBeforeAllAddressed", r.order>>} ELSE {})
             ELSE {})

\* ---- Conformance: the model's final state against the observations ----------------------
ResClass(x) ==
    IF x = "ok" THEN "ok" ELSE IF x \in {"panic", "hang", "budget"} THEN x ELSE "err"

ConformanceErrors(r) ==
    (IF ResClass(r.result) # ResClass(result) THEN {<<"result", r.result, result>>} ELSE {})
    \cup (IF result = "err:Capacity" /\ r.result # "err:Capacity" THEN {<<"error-kind", r.result, result>>} ELSE {})
    \cup (IF r.result = "ok" /\ result = "ok"
          THEN {<<"group", g>> : g \in {g \in 1..Len(r.groups) :
                   [j \in 1..Len(r.groups[g]) |-> r.groups[g][j].addr]
                     # [j \in 1..Len(groupsOut[g - 1]) |-> groupsOut[g - 1][j].addr]}}
          ELSE {})

Judge ==
    pc = "done" =>
        LET r == Rec[ri]
            me == MonitorErrors(r)
            ce == ConformanceErrors(r)
        IN /\ TLCSet(5, TLCGet(5) + 1)
           /\ (me # {} => /\ PrintT(ToJson([kind |-> "VIOL", case |-> r.case.id, errs |-> ToString(me)]))
                          /\ TLCSet(3, TLCGet(3) + 1))
           /\ (ce # {} => /\ PrintT(ToJson([kind |-> "DIVERGE", case |-> r.case.id, errs |-> ToString(ce)]))
                          /\ TLCSet(4, TLCGet(4) + 1))

Report ==
    PrintT(ToJson([kind |-> "SUMMARY", cases |-> Len(Rec), judged |-> TLCGet(5), violations |-> TLCGet(3),
                   divergences |-> TLCGet(4)]))

=============================================================================
