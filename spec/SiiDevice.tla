----------------------------- MODULE SiiDevice -----------------------------
(***************************************************************************)
(* The register-level protocol of one EEPROM range read                    *)
(* (EepromRange::read over DeviceEeprom, src/eeprom/mod.rs and             *)
(* src/eeprom/device_provider.rs): look at the control register and clear  *)
(* error flags, then per chunk: write the read command with the word       *)
(* address, poll the control register while the interface is busy, fetch   *)
(* 4 or 8 bytes from the data register as the read-size flag says.  The    *)
(* word addresses are those of SiiRead's window arithmetic: the chunk that *)
(* contains the cursor, the cursor advancing by what was taken.            *)
(* One action per datagram; the device is busy for any number of polls.    *)
(***************************************************************************)
EXTENDS Naturals, Integers, Sequences, FiniteSets, TLC

CONSTANTS MaxBusy        \* bound on busy polls per command (exploration bound)

VARIABLES startWord, len, chunk,     \* the request: start word, bytes wanted, bytes per access (4 or 8)
          pos, endPos, got,          \* cursor and end of the window in bytes, bytes delivered so far
          dpc,                       \* "check" | "command" | "busy" | "fetch" | "done"
          addrReg,                   \* address the device was given
          busyLeft,                  \* polls during which the device still reports busy
          accesses                   \* word addresses requested so far
sdvars == <<startWord, len, chunk, pos, endPos, got, dpc, addrReg, busyLeft, accesses>>

Min(a, b) == IF a < b THEN a ELSE b
AddressSpace == 131072

SdInitWith(w, l, c) ==
    /\ startWord = w /\ len = l /\ chunk = c
    /\ pos = 2 * w
    /\ endPos = Min(2 * w + 2 * ((l + 1) \div 2), AddressSpace)
    /\ got = 0 /\ dpc = (IF l = 0 THEN "done" ELSE "check") /\ addrReg = 0 /\ busyLeft = 0 /\ accesses = <<>>    \* an empty request makes no access

Room == Min(len - got, endPos - pos)

\* FPRD control: clear_errors looks at the flags first (no error flags in this model)
Check ==
    /\ dpc = "check"
    /\ dpc' = IF Room <= 0 THEN "done" ELSE "command"
    /\ UNCHANGED <<startWord, len, chunk, pos, endPos, got, addrReg, busyLeft, accesses>>

\* FPWR control: read command + word address
Command ==
    /\ dpc = "command"
    /\ addrReg' = pos \div 2
    /\ accesses' = Append(accesses, pos \div 2)
    /\ \E b \in 0..MaxBusy : busyLeft' = b
    /\ dpc' = "busy"
    /\ UNCHANGED <<startWord, len, chunk, pos, endPos, got>>

\* FPRD control: busy?
PollBusy ==
    /\ dpc = "busy"
    /\ IF busyLeft > 0 THEN busyLeft' = busyLeft - 1 /\ UNCHANGED dpc
       ELSE dpc' = "fetch" /\ UNCHANGED busyLeft
    /\ UNCHANGED <<startWord, len, chunk, pos, endPos, got, addrReg, accesses>>

\* FPRD data: `chunk` bytes starting at the word address; those from the cursor on are taken, as far as there is room
Fetch ==
    /\ dpc = "fetch"
    /\ LET skip == pos % 2
           take == Min(chunk - skip, Room)
       IN /\ got' = got + take /\ pos' = pos + take
          /\ dpc' = IF got + take >= len \/ pos + take >= endPos THEN "done" ELSE "command"
    /\ UNCHANGED <<startWord, len, chunk, endPos, addrReg, busyLeft, accesses>>

SdNext == Check \/ Command \/ PollBusy \/ Fetch

\* ---------------------------------------------------------------------------
\* every byte of the range is fetched from the chunk that holds it, in order, once
AccessesCover ==
    dpc = "done" =>
        /\ got = Min(len, endPos - 2 * startWord)
        /\ \A k \in 1..Len(accesses) : accesses[k] >= startWord /\ 2 * accesses[k] < endPos
        /\ \A k \in 1..(Len(accesses) - 1) : accesses[k] < accesses[k + 1]
        /\ Len(accesses) <= (len \div (chunk - 1)) + 2

=============================================================================
