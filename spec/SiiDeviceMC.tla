---------------------------- MODULE SiiDeviceMC ----------------------------
EXTENDS SiiDevice
CONSTANTS MaxWord, MaxLen
McInit == \E w \in {0, 1, 2, 5, MaxWord, 65534, 65535}, l \in 0..MaxLen, c \in {4, 8} : SdInitWith(w, l, c)
McSpec == McInit /\ [][SdNext]_sdvars
=============================================================================
