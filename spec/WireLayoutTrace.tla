---------------------------- MODULE WireLayoutTrace ----------------------------
(***************************************************************************)
(* Conformance of the derived encoders with WireLayout.  Each trace line is *)
(* one operation on a value of a generated type: the layout (and enum       *)
(* definitions) it was generated from, the field values as the program saw  *)
(* them, and what pack / pack_to_slice / unpack_from_slice produced.        *)
(***************************************************************************)
EXTENDS WireLayout, Json, IOUtils

Rec == ndJsonDeserialize(IOEnv.TRACE)

VARIABLES l

ASSUME TLCSet(3, 0)

\* enum definitions arrive as JSON: alternative lists are sequences there, sets in WireLayout
Def(e) == [vs |-> [i \in 1..Len(e.vs) |->
                      [d |-> e.vs[i].d, alts |-> {e.vs[i].alts[j] : j \in 1..Len(e.vs[i].alts)}]],
           catchAll |-> e.catchAll, dflt |-> e.dflt]

RawOf(bytes) == IF Len(bytes) = 1 THEN bytes[1] ELSE bytes[1] + 256 * bytes[2]

LeBytes(v, n) == IF n = 1 THEN <<v % 256>> ELSE <<v % 256, (v \div 256) % 256>>

\* wire image of field i of a value, from the logged field value
WireOf(c, i) ==
    IF c.L[i].kind = "nested" THEN Pack(c.L[i].inner, c.vals[i])
    ELSE IF c.L[i].kind = "enum"
    THEN LET t == c.vals[i]
             n == (c.L[i].w + 7) \div 8
         IN IF t[1] = "variant" THEN LeBytes(EnumEncode(Def(c.E[i]), t[2]), n) ELSE LeBytes(t[2], n)
    ELSE c.vals[i]

PackErrors(c) ==
    LET L == c.L
        want == Pack(L, [i \in 1..Len(L) |-> WireOf(c, i)])
    IN (IF ~Valid(L) \/ \E i \in 1..Len(L) : L[i].kind = "nested" /\ ~(Valid(L[i].inner) /\ TotalBits(L[i].inner) = L[i].w)
        THEN {<<"layout-not-valid-in-model">>} ELSE {})
       \cup (IF c.res # "ok" THEN {<<"pack-failed", c.res>>} ELSE
             (IF c.packed # want THEN {<<"packed-bytes", c.packed, want>>} ELSE {})
             \cup (IF c.plen # PackedLen(L) THEN {<<"packed-len", c.plen, PackedLen(L)>>} ELSE {})
             \cup (IF c.short # "err" THEN {<<"short-destination-not-refused", c.short>>} ELSE {})
             \cup (IF c.long # "ok" THEN {<<"long-destination", c.long>>} ELSE {}))

\* expected decode of field i from buffer
FieldWant(c, i) ==
    LET got == UnpackField(c.L, c.buf, i) IN
    IF c.L[i].kind = "enum" THEN EnumDecode(Def(c.E[i]), RawOf(got))
    ELSE IF c.L[i].kind = "nested" THEN Unpack(c.L[i].inner, got)
    ELSE got

UnpackErrors(c) ==
    LET L == c.L IN
    IF c.res = "panic" THEN {<<"unpack-panicked">>}
    ELSE IF Len(c.buf) < PackedLen(L)
    THEN (IF c.res # "err" THEN {<<"short-buffer-accepted", Len(c.buf), PackedLen(L)>>} ELSE {})
    ELSE LET bad == {i \in 1..Len(L) : L[i].kind = "enum" /\ FieldWant(c, i) = <<"error">>} IN
         IF bad # {}
         THEN (IF c.res # "err" THEN {<<"undefined-enum-value-accepted", bad>>} ELSE {})
         ELSE IF c.res # "ok" THEN {<<"valid-buffer-rejected", c.res>>}
         ELSE LET wrong == {i \in 1..Len(L) : c.fields[i] # FieldWant(c, i)} IN
              IF wrong # {} THEN {<<"unpacked-fields", wrong,
                                    [i \in wrong |-> <<c.fields[i], FieldWant(c, i)>>]>>} ELSE {}

RoundTripErrors(c) == IF c.rt THEN {} ELSE {<<"round-trip-differs">>}

\* the scratch buffer the crate hands out for a sized type holds exactly its packed form
BufferErrors(c) ==
    (IF c.buflen # c.plen THEN {<<"buffer-length", c.buflen, c.plen>>} ELSE {})
    \cup (IF c.n > 0 /\ c.plen # c.n * c.item THEN {<<"array-packed-len", c.plen, c.n, c.item>>} ELSE {})

\* an array of primitive items is its items' little-endian bytes one after the other
ArrayUnpackErrors(c) ==
    IF c.res = "panic" THEN {<<"unpack-panicked">>}
    ELSE IF Len(c.buf) < c.plen
    THEN (IF c.res # "err" THEN {<<"short-buffer-accepted", Len(c.buf), c.plen>>} ELSE {})
    ELSE IF c.res # "ok" THEN {<<"valid-buffer-rejected", c.res>>}
    ELSE IF c.flat # SubSeq(c.buf, 1, c.plen) THEN {<<"array-items", c.flat, SubSeq(c.buf, 1, c.plen)>>} ELSE {}

CaseErrors(c) ==
    CASE c.op = "pack" -> PackErrors(c)
      [] c.op = "buffer" -> BufferErrors(c)
      [] c.op = "array_unpack" -> ArrayUnpackErrors(c)
      [] c.op = "unpack" -> UnpackErrors(c)
      [] c.op = "roundtrip" -> RoundTripErrors(c)
      [] OTHER -> {}

TInit == l = 1

TNext ==
    /\ l <= Len(Rec)
    /\ LET errs == CaseErrors(Rec[l]) IN
       errs # {} => /\ PrintT(ToJson([kind |-> "VIOL", case |-> Rec[l].id, op |-> Rec[l].op,
                                      errs |-> ToString(errs)]))
                    /\ TLCSet(3, TLCGet(3) + 1)
    /\ l' = l + 1

TraceSpec == (TInit /\ layout = <<>> /\ finished = FALSE) /\ [][TNext /\ UNCHANGED wlvars]_<<l, wlvars>>

Report ==
    PrintT(ToJson([kind |-> "SUMMARY", cases |-> Len(Rec), bad |-> TLCGet(3),
                   consumed |-> TLCGet("stats").diameter - 1]))

=============================================================================
