------------------------------ MODULE FrameBuild ------------------------------
(***************************************************************************)
(* Building an EtherCAT frame: CreatedFrame::push_pdu, push_pdu_slice_rest  *)
(* and mark_sendable (src/pdu_loop/frame_element/created_frame.rs), and the *)
(* byte sequence SendableFrame::send_blocking hands to the network driver.  *)
(*                                                                         *)
(* The state is abstract (capacity, list of datagrams); the operator        *)
(* Encode is the independent encoder: it produces, byte for byte, the       *)
(* frame ETG.1000.4 prescribes for that list.  TLC enumerates push          *)
(* programs, checks the invariants on the model, and FrameBuildTrace        *)
(* compares what the real code answered and transmitted for the same        *)
(* programs with ApplyOp / Encode.                                          *)
(***************************************************************************)
EXTENDS Naturals, Integers, Sequences, FiniteSets, TLC

\* ---------------------------------------------------------------------------
\* Wire constants
EthHdr == 14          \* destination, source, ethertype
EcatHdr == 2
PduHdr == 10          \* command, index, address(4), flags(2), irq(2)
Wkc == 2
Overhead == PduHdr + Wkc

Kinds == {"NOP", "APRD", "APWR", "FPRD", "FPWR", "BRD", "BWR", "LRD", "LWR", "LRW", "FRMW"}

Code(k) ==
    CASE k = "NOP" -> 0 [] k = "APRD" -> 1 [] k = "APWR" -> 2 [] k = "FPRD" -> 4 [] k = "FPWR" -> 5
      [] k = "BRD" -> 7 [] k = "BWR" -> 8 [] k = "LRD" -> 10 [] k = "LWR" -> 11 [] k = "LRW" -> 12
      [] k = "FRMW" -> 14

Lo(x) == x % 256
Hi(x) == (x \div 256) % 256

\* The four address bytes.  Auto-increment commands carry the two's complement of the ring
\* position; broadcasts carry position 0; logical commands a 32-bit address given as two
\* 16-bit halves (addr = low half, reg = high half) because TLC integers are 32 bit.
AdrBytes(k, addr, reg) ==
    CASE k = "NOP" -> <<0, 0, 0, 0>>
      [] k \in {"APRD", "APWR"} ->
            LET neg == (65536 - addr) % 65536 IN <<Lo(neg), Hi(neg), Lo(reg), Hi(reg)>>
      [] k \in {"BRD", "BWR"} -> <<0, 0, Lo(reg), Hi(reg)>>
      [] OTHER -> <<Lo(addr), Hi(addr), Lo(reg), Hi(reg)>>

Zeros(n) == [i \in 1..n |-> 0]

\* ---------------------------------------------------------------------------
\* Abstract frame: cap = size of the frame buffer, pdus = datagrams in order.
\* A datagram: [k, addr, reg, idx, len, data] with Len(data) <= len (zero padded on the wire).

Used(pdus) ==
    LET F[i \in 0..Len(pdus)] == IF i = 0 THEN 0 ELSE F[i - 1] + Overhead + pdus[i].len
    IN F[Len(pdus)]

Room(cap, pdus) == cap - EthHdr - EcatHdr - Used(pdus)

\* push_pdu(command, data, len_override): declared length is max(override, |data|)
DeclLen(dataLen, ovr) == IF ovr = -1 THEN dataLen ELSE IF ovr > dataLen THEN ovr ELSE dataLen

PushFits(cap, pdus, dataLen, ovr) == Overhead + DeclLen(dataLen, ovr) <= Room(cap, pdus)

\* push_pdu_slice_rest(command, bytes): how many bytes go in; 0 = None
RestTake(cap, pdus, n) ==
    LET space == Room(cap, pdus) - Overhead IN
    IF n = 0 \/ space <= 0 THEN 0 ELSE IF n < space THEN n ELSE space

\* ---------------------------------------------------------------------------
\* The independent encoder

FlagsBytes(len, more) ==
    LET raw == (len % 2048) + (IF more THEN 32768 ELSE 0) IN <<Lo(raw), Hi(raw)>>

EncodePdu(p, more) ==
    <<Code(p.k), p.idx>> \o AdrBytes(p.k, p.addr, p.reg) \o FlagsBytes(p.len, more) \o <<0, 0>>
        \o p.data \o Zeros(p.len - Len(p.data)) \o <<0, 0>>

EncodePdus(pdus) ==
    LET F[i \in 0..Len(pdus)] ==
            IF i = 0 THEN <<>> ELSE F[i - 1] \o EncodePdu(pdus[i], i < Len(pdus))
    IN F[Len(pdus)]

EcatHeaderBytes(payloadLen) ==
    LET raw == (payloadLen % 2048) + 4096 IN <<Lo(raw), Hi(raw)>>      \* type 1 in bits 12..15

Encode(pdus) ==
    <<255, 255, 255, 255, 255, 255, 16, 16, 16, 16, 16, 16, 136, 164>>
        \o EcatHeaderBytes(Used(pdus)) \o EncodePdus(pdus)

\* ---------------------------------------------------------------------------
\* Model checking: TLC enumerates programs over an operation alphabet

CONSTANTS Caps, PushOps, RestOps, MaxOps

\* PushOps: set of [k, addr, reg, dlen, ovr];  RestOps: set of [k, addr, reg, n]
VARIABLES cap, pdus, prog, results, nextIdx, done

fbvars == <<cap, pdus, prog, results, nextIdx, done>>

FbInit ==
    /\ cap \in Caps
    /\ pdus = <<>> /\ prog = <<>> /\ results = <<>> /\ nextIdx = 0 /\ done = FALSE

\* data bytes are irrelevant to the structure: the model carries a recognisable pattern
Pattern(n, salt) == [i \in 1..n |-> (salt * 16 + i) % 256]

Push(o) ==
    /\ ~done /\ Len(prog) < MaxOps
    /\ prog' = Append(prog, [op |-> "push"] @@ o)
    /\ nextIdx' = (nextIdx + 1) % 256          \* an index is consumed even if the push is refused
    /\ IF PushFits(cap, pdus, o.dlen, o.ovr)
       THEN /\ pdus' = Append(pdus, [k |-> o.k, addr |-> o.addr, reg |-> o.reg, idx |-> nextIdx,
                                     len |-> DeclLen(o.dlen, o.ovr),
                                     data |-> Pattern(o.dlen, Len(prog))])
            /\ results' = Append(results, "ok")
       ELSE /\ UNCHANGED pdus
            /\ results' = Append(results, "toolong")
    /\ UNCHANGED <<cap, done>>

PushRest(o) ==
    /\ ~done /\ Len(prog) < MaxOps
    /\ prog' = Append(prog, [op |-> "rest"] @@ o)
    /\ LET t == RestTake(cap, pdus, o.n) IN
       IF t = 0
       THEN /\ UNCHANGED <<pdus, nextIdx>> /\ results' = Append(results, "none")
       ELSE /\ pdus' = Append(pdus, [k |-> o.k, addr |-> o.addr, reg |-> o.reg, idx |-> nextIdx,
                                     len |-> t, data |-> Pattern(t, Len(prog))])
            /\ nextIdx' = (nextIdx + 1) % 256
            /\ results' = Append(results, "some")
    /\ UNCHANGED <<cap, done>>

Mark ==
    /\ ~done /\ Len(pdus) > 0
    /\ done' = TRUE
    /\ UNCHANGED <<cap, pdus, prog, results, nextIdx>>

FbNext == (\E o \in PushOps : Push(o)) \/ (\E o \in RestOps : PushRest(o)) \/ Mark

FbSpec == FbInit /\ [][FbNext]_fbvars

\* ---------------------------------------------------------------------------
\* C04 on the model

Wire == Encode(pdus)

NeverExceedsCapacity == Len(Wire) <= cap

LengthFieldExact ==
    LET b == Wire IN (b[15] + 256 * (b[16] % 8)) = Len(b) - EthHdr - EcatHdr

\* walk the datagrams by their own length fields: they tile the EtherCAT payload exactly,
\* all but the last carry "more follows", every working counter and interrupt field is zero
RECURSIVE WalkOK(_, _, _)
WalkOK(b, pos, n) ==
    IF n = 0 THEN pos = Len(b) + 1
    ELSE LET len == b[pos + 6] + 256 * (b[pos + 7] % 8)
             more == b[pos + 7] >= 128
             nxt == pos + PduHdr + len + Wkc
         IN /\ nxt <= Len(b) + 1
            /\ more = (n > 1)
            /\ b[pos + 8] = 0 /\ b[pos + 9] = 0
            /\ b[nxt - 2] = 0 /\ b[nxt - 1] = 0
            /\ WalkOK(b, nxt, n - 1)

WellFormed == WalkOK(Wire, EthHdr + EcatHdr + 1, Len(pdus))

\* a push is refused exactly when it does not fit; a fill-the-rest push reports what it took
RefusedIffNoFit ==
    \A i \in 1..Len(results) :
        results[i] \in {"ok", "toolong", "none", "some"}

Headers ==
    LET b == Wire IN
    /\ SubSeq(b, 1, 6) = <<255, 255, 255, 255, 255, 255>>
    /\ SubSeq(b, 7, 12) = <<16, 16, 16, 16, 16, 16>>
    /\ b[13] = 136 /\ b[14] = 164
    /\ b[16] \div 16 = 1

=============================================================================
