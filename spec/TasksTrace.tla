----------------------------- MODULE TasksTrace -----------------------------
(***************************************************************************)
(* C20 on executions.  One trace line = 2..4 cooperative tasks (process     *)
(* data cycles of different groups, register reads, SDO transfers on        *)
(* different SubDevices) sharing one MainDevice on the simulated segment    *)
(* under a seeded scheduler that picks the next task at every await point,  *)
(* seeded response latencies and out-of-order delivery, and a frame storage *)
(* between just enough and ample; plus the same operations run alone, one   *)
(* task after the other, from the same initial state ("solo").              *)
(*                                                                         *)
(* Monitor: every operation of every task yields the result (status,        *)
(* working counter, bytes) of its solo run - no foreign response, no mixed  *)
(* images; an operation may fail for lack of a frame slot only if the       *)
(* storage was completely in use at some point (Tasks.NoSpuriousFailure),   *)
(* and never when the storage has a slot per task; the run ends.            *)
(* Conformance with Tasks.tla: never more frames in flight than slots.      *)
(***************************************************************************)
EXTENDS Naturals, Sequences, FiniteSets, TLC, Json, IOUtils

Rec == ndJsonDeserialize(IOEnv.TRACE)

VARIABLE l
ASSUME TLCSet(3, 0)
ASSUME TLCSet(4, 0)

IsNoSlot(x) == x.r = "err:Pdu" /\ x.detail = "Pdu(SwapState)"

TaskErrors(r, t) ==
    LET a == r.tasks[t]  s == r.solo[t] IN
    (IF ~a.done THEN {<<"TaskNotFinished", t>>} ELSE {})
    \* a process data cycle delivers the inputs of its own group's devices (the simulator's ground truth), whoever
    \* else is using the MainDevice - and also when nobody else is
    \cup {<<"InputsNotOwnGroup", t, k>> :
            k \in {k \in 1..Len(a.results) : a.is_cycle /\ a.results[k].r = "ok" /\ a.results[k].bytes # a.expect_inputs}}
    \cup (IF Len(a.results) # Len(s.results) THEN {<<"OperationCount", t, Len(a.results), Len(s.results)>>} ELSE
          {<<"ResultDiffersFromSolo", t, k, a.results[k].r, s.results[k].r>> :
              k \in {k \in 1..Len(a.results) :
                       /\ a.results[k] # s.results[k]
                       \* an operation given up on purpose has no result: where the solo run gave it up, the shared
                       \* run may also have found no slot for it
                       /\ ~(s.results[k].r = "cancelled" /\ IsNoSlot(a.results[k]) /\ r.max_in_flight >= r.slots /\ r.slots < r.ntasks_frames)
                       \* the one failure the property allows: the storage was exhausted
                       /\ ~(IsNoSlot(a.results[k]) /\ r.max_in_flight >= r.slots /\ r.slots < r.ntasks_frames)}})

Errors(r) ==
    IF r.result \in {"panic", "hang", "budget"} THEN {<<"NotTotal", r.result, r.detail>>}
    ELSE IF r.result # "ok" \/ r.solo_result # "ok" THEN {}       \* set-up failed: not this property's business
    ELSE UNION {TaskErrors(r, t) : t \in 1..Len(r.tasks)}

\* (an operation that is given up frees its slot while its frame is still on the wire: no bound then)
Diverge(r) == IF r.result = "ok" /\ ~r.cancels /\ r.max_in_flight > r.slots THEN {<<"in_flight", r.max_in_flight, r.slots>>} ELSE {}

TInit == l = 1
TNext ==
    /\ l <= Len(Rec)
    /\ LET e == Errors(Rec[l])  d == Diverge(Rec[l]) IN
       /\ (e # {} => /\ PrintT(ToJson([kind |-> "VIOL", case |-> Rec[l].case.id, errs |-> ToString(e)]))
                     /\ TLCSet(3, TLCGet(3) + 1))
       /\ (d # {} => /\ PrintT(ToJson([kind |-> "DIVERGE", case |-> Rec[l].case.id, errs |-> ToString(d)]))
                     /\ TLCSet(4, TLCGet(4) + 1))
    /\ l' = l + 1
TraceSpec == TInit /\ [][TNext]_l

Report == PrintT(ToJson([kind |-> "SUMMARY", cases |-> Len(Rec), violations |-> TLCGet(3), divergences |-> TLCGet(4),
                         judged |-> TLCGet("stats").diameter - 1]))
=============================================================================
