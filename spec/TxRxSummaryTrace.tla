--------------------------- MODULE TxRxSummaryTrace ---------------------------
(***************************************************************************)
(* C10, last clause: the per-cycle state list and its summaries say exactly *)
(* what the devices reported.  Each trace line is one real group.tx_rx on   *)
(* the simulated segment (possibly with a device that does not answer);     *)
(* the line carries the state list the call returned, the summaries it      *)
(* computed, and what every device really answered.                         *)
(***************************************************************************)
EXTENDS Naturals, Integers, Sequences, FiniteSets, TLC, Json, IOUtils

Rec == ndJsonDeserialize(IOEnv.TRACE)

VARIABLE l

ASSUME TLCSet(3, 0)

Code(name) ==
    CASE name = "None" -> 0 [] name = "Init" -> 1 [] name = "PreOp" -> 2 [] name = "Bootstrap" -> 3
      [] name = "SafeOp" -> 4 [] name = "Op" -> 8 [] OTHER -> 99

SingleState(states) ==
    IF Len(states) = 0 THEN 0
    ELSE IF \A i \in 1..Len(states) : states[i] = states[1] THEN states[1] ELSE -1
AllOp(states) == Len(states) > 0 /\ \A i \in 1..Len(states) : states[i] = 8

\* the answers of the AL status datagrams of the cycle, in order: a datagram nobody serviced reports None
Answered(r) ==
    LET sc == SelectSeq(r.datagrams, LAMBDA d : d.cmd = "FPRD" /\ d.ado = 304)
    IN [i \in 1..Len(sc) |-> IF sc[i].true_wkc = 0 THEN 0 ELSE -2]

Errors(r) ==
    IF r.result # "ok" \/ "states" \notin DOMAIN r THEN {}
    ELSE LET st == [i \in 1..Len(r.states) |-> Code(r.states[i])]
             ans == Answered(r)
         IN (IF Len(ans) = Len(st) /\ \E i \in 1..Len(st) : ans[i] = 0 /\ st[i] # 0
             THEN {<<"StateListWrong", r.states>>} ELSE {})
            \cup (IF r.all_op # AllOp(st) THEN {<<"AllOpWrong", r.states, r.all_op>>} ELSE {})
            \cup (IF r.is_in_state_op # AllOp(st) THEN {<<"IsInStateWrong", r.states, r.is_in_state_op>>} ELSE {})

TInit == l = 1
TNext ==
    /\ l <= Len(Rec)
    /\ LET e == Errors(Rec[l]) IN
       e # {} => /\ PrintT(ToJson([kind |-> "VIOL", case |-> Rec[l].case.id, errs |-> ToString(e)]))
                 /\ TLCSet(3, TLCGet(3) + 1)
    /\ l' = l + 1
TraceSpec == TInit /\ [][TNext]_l

Report == PrintT(ToJson([kind |-> "SUMMARY", cases |-> Len(Rec), violations |-> TLCGet(3),
                         judged |-> TLCGet("stats").diameter - 1]))

=============================================================================
