------------------------------ MODULE DcSyncApa ------------------------------
(***************************************************************************)
(* The arithmetic obligations of C18 at the true register widths, for       *)
(* Apalache (unbounded integers constrained to the register ranges):        *)
(*   time t in 0..2^64-1, period p in 1..2^32-1, delay d and shift s in     *)
(*   0..2^32-1.                                                             *)
(* Checked with  apalache-mc check --init=Init --inv=<Inv> --length=0       *)
(***************************************************************************)
EXTENDS Integers

VARIABLES
    \* @type: Int;
    t,
    \* @type: Int;
    d,
    \* @type: Int;
    p,
    \* @type: Int;
    s

T64 == 18446744073709551616     \* 2^64
P32 == 4294967296               \* 2^32

Init ==
    /\ t \in 0..(T64 - 1)
    /\ d \in 0..(P32 - 1)
    /\ p \in 1..(P32 - 1)
    /\ s \in 0..(P32 - 1)

Next == UNCHANGED <<t, d, p, s>>

Start == ((t + d) \div p) * p

\* the start time the code computes is a whole multiple of the period in (t+d-p, t+d]
StartInv ==
    /\ Start % p = 0
    /\ Start <= t + d
    /\ Start > t + d - p

\* per-cycle values are exact and fit 64 bits for every 64-bit time
CycleInv ==
    LET off == t % p IN
    /\ off >= 0 /\ off < p
    /\ t = (t \div p) * p + off
    /\ (p - off) + s >= 1
    /\ (p - off) + s < T64

\* the intermediate sum of the set-up fits the 64-bit register: NOT an invariant (counter-model
\* near 2^64); kept to document where the code as written is partial
SumFits == t + d < T64

=============================================================================
