------------------------------- MODULE RxTriage -------------------------------
(***************************************************************************)
(* The receive path's triage of an arbitrary byte sequence                  *)
(* (PduRx::receive_frame, src/pdu_loop/pdu_rx.rs, with EthernetFrame,       *)
(* EthercatFrameHeader and the slot search of storage.rs), transcribed as   *)
(* the operator Triage over byte sequences and a vector of slot states.     *)
(* TLC enumerates slot-state vectors x structure-aware mutations of a valid *)
(* reply; the harness prepares the same slot states on the real loop,       *)
(* delivers the same bytes and snapshots every slot before and after;       *)
(* RxTriageTrace compares result and snapshots with Triage (conformance)    *)
(* and evaluates C05's clauses on the snapshots alone (monitor).            *)
(***************************************************************************)
EXTENDS Naturals, Integers, Sequences, FiniteSets, TLC

EMPTY == 65280
None == 0  Created == 1  Sendable == 2  Sending == 3
Sent == 4  RxBusy == 5   RxDone == 6    RxProcessing == 7

Own == <<16, 16, 16, 16, 16, 16>>

\* ---------------------------------------------------------------------------
\* Slot preparation: what the harness does for each target, in slot order.
\* Every target that pushes a datagram consumes the next datagram index.

Targets == {"Fresh", "NoneEmpty", "NoneStale", "Created", "CreatedPushed", "Sendable", "Sending",
            "Sent", "RxBusy", "RxDone", "RxProcessing"}

Pushes(t) == t \notin {"Fresh", "NoneEmpty", "Created"}

StateOf(t) ==
    CASE t \in {"Fresh", "NoneEmpty", "NoneStale"} -> None
      [] t \in {"Created", "CreatedPushed"} -> Created
      [] t = "Sendable" -> Sendable [] t = "Sending" -> Sending [] t = "Sent" -> Sent
      [] t = "RxBusy" -> RxBusy [] t = "RxDone" -> RxDone [] t = "RxProcessing" -> RxProcessing

\* number of pushing targets before position i (1-based)
IdxOf(ts, i) == Cardinality({j \in 1..(i - 1) : Pushes(ts[j])})

FpOf(ts, i) ==
    IF ts[i] = "Fresh" THEN 0                     \* zeroed storage
    ELSE IF Pushes(ts[i]) THEN IdxOf(ts, i)
    ELSE EMPTY

Prep(ts) == [i \in 1..Len(ts) |-> [st |-> StateOf(ts[i]), fp |-> FpOf(ts, i)]]

\* "Fresh" only makes sense for a suffix of never allocated slots
WellFormedTargets(ts) ==
    \A i \in 1..Len(ts) : ts[i] = "Fresh" => \A j \in i..Len(ts) : ts[j] = "Fresh"

\* ---------------------------------------------------------------------------
\* The triage.  bytes: sequence of 0..255; slots: sequence of [st, fp]; cap: frame buffer size.
\* Result: [res, slot, len] with res in
\*   "Ignored", "ErrEthernet", "ErrHeader", "ErrShort", "ErrInternal", "ErrDecode", "ErrOversize",
\*   "Processed"

Triage(bytes, slots, cap) ==
    IF Len(bytes) < 14 THEN [res |-> "ErrEthernet", slot |-> 0, len |-> 0]
    ELSE IF ~(bytes[13] = 136 /\ bytes[14] = 164) \/ SubSeq(bytes, 7, 12) = Own
    THEN [res |-> "Ignored", slot |-> 0, len |-> 0]
    ELSE IF Len(bytes) < 16 THEN [res |-> "ErrHeader", slot |-> 0, len |-> 0]
    ELSE LET raw == bytes[15] + 256 * bytes[16]
             plen == raw % 2048
             proto == raw \div 4096
         IN IF proto # 1 THEN [res |-> "ErrHeader", slot |-> 0, len |-> 0]
            ELSE IF plen = 0 THEN [res |-> "Ignored", slot |-> 0, len |-> 0]
            ELSE IF Len(bytes) < 16 + plen THEN [res |-> "ErrShort", slot |-> 0, len |-> 0]
            ELSE IF plen < 2 THEN [res |-> "ErrInternal", slot |-> 0, len |-> 0]
            ELSE LET idx == bytes[18]
                     cands == {s \in 1..Len(slots) : slots[s].fp = idx /\ slots[s].st = Sent}
                 IN IF cands = {} THEN [res |-> "ErrDecode", slot |-> 0, len |-> 0]
                    ELSE LET s == CHOOSE x \in cands : \A y \in cands : x <= y IN
                         IF plen > cap - 16
                         THEN [res |-> "ErrOversize", slot |-> s, len |-> 0]
                         ELSE [res |-> "Processed", slot |-> s, len |-> plen]

\* state of slot s afterwards
PostState(r, slots, s) ==
    IF r.slot = s THEN (IF r.res = "Processed" THEN RxDone ELSE RxBusy) ELSE slots[s].st

\* ---------------------------------------------------------------------------
\* Frames: a valid reply and its structure-aware mutations

Lo(x) == x % 256
Hi(x) == (x \div 256) % 256

\* reply to a request with one FPWR datagram of 4 data bytes and first index idx
Reply(src, ethertype, proto, lenField, idx, tail) ==
    <<255, 255, 255, 255, 255, 255>> \o src \o <<Hi(ethertype), Lo(ethertype)>>
        \o <<Lo(lenField + 4096 * proto), Hi(lenField + 4096 * proto)>>
        \o <<5, idx, 1, 16, 32, 1, 4, 0, 0, 0, 170, 187, 204, 221, 1, 0>>
        \o [i \in 1..tail |-> 238]

TrueLen == 16          \* one datagram: 10 + 4 + 2

Truncate(b, n) == SubSeq(b, 1, n)

\* ---------------------------------------------------------------------------
\* Model checking: one case per initial state

CONSTANTS NSlots, TargetSet, Cap

VARIABLES targets, frame, outcome, phase

rtvars == <<targets, frame, outcome, phase>>

Srcs == {<<18, 16, 16, 16, 16, 16>>, Own, <<2, 0, 0, 0, 0, 1>>}

LenFields == {0, 1, 2, 11, 12, TrueLen - 1, TrueLen, TrueLen + 1, Cap - 16, Cap - 15, 2047}

Indices == (0..NSlots) \cup {200, 255}

\* field mutations (full length, optional tail so that lying length fields can be "satisfied")
FieldFrames ==
    { Reply(src, et, pr, lf, ix, tl) :
        src \in Srcs, et \in {34980, 2048, 34981}, pr \in {0, 1, 4, 9, 15}, lf \in LenFields,
        ix \in Indices, tl \in {0, Cap} }

\* every truncation of the well-formed reply for every index
TruncFrames ==
    { Truncate(Reply(<<18, 16, 16, 16, 16, 16>>, 34980, 1, TrueLen, ix, 0), n) :
        ix \in Indices, n \in 0..(16 + TrueLen) }

Frames == FieldFrames \cup TruncFrames

RtInit ==
    /\ targets \in [1..NSlots -> TargetSet]
    /\ WellFormedTargets(targets)
    /\ frame \in Frames
    /\ outcome = [res |-> "none", slot |-> 0, len |-> 0]
    /\ phase = "ready"

Deliver ==
    /\ phase = "ready"
    /\ outcome' = Triage(frame, Prep(targets), Cap)
    /\ phase' = "done"
    /\ UNCHANGED <<targets, frame>>

RtNext == Deliver
RtSpec == RtInit /\ [][RtNext]_rtvars

\* ---------------------------------------------------------------------------
\* C05 on the model

Slots0 == Prep(targets)

FirstIndex(b) == IF Len(b) >= 18 THEN b[18] ELSE -1

AwaitingSlots(b, slots) == {s \in 1..Len(slots) : slots[s].st = Sent /\ slots[s].fp = FirstIndex(b)}

\* only the slot the frame was accepted into may change
OnlyAcceptedSlotChanges ==
    phase = "done" =>
        \A s \in 1..NSlots : PostState(outcome, Slots0, s) # Slots0[s].st => outcome.slot = s

\* accepted only into a slot that awaits exactly this index
AcceptedOnlyIntoAwaitingSlot ==
    phase = "done" /\ outcome.slot # 0 => outcome.slot \in AwaitingSlots(frame, Slots0)

\* strangers are ignored
OwnAndForeignIgnored ==
    phase = "done" /\ Len(frame) >= 14
      /\ (~(frame[13] = 136 /\ frame[14] = 164) \/ SubSeq(frame, 7, 12) = Own)
        => outcome.res = "Ignored"

NoMatchNoAccept ==
    phase = "done" /\ AwaitingSlots(frame, Slots0) = {} => outcome.slot = 0 /\ outcome.res # "Processed"

=============================================================================
