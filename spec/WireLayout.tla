------------------------------ MODULE WireLayout ------------------------------
(***************************************************************************)
(* Wire encodings derived from a declared layout                            *)
(* (ethercrab-wire-derive: parse_struct / generate_struct / parse_enum /    *)
(* generate_enum, ethercrab-wire: impls).                                   *)
(*                                                                         *)
(* A layout is a sequence of fields, each with a bit width, a number of     *)
(* bits skipped before and after it, and a kind.  The reference semantics   *)
(* is positional: field i occupies the bits [Start(i), Start(i)+w) of the   *)
(* packed image, bit k of byte j being global bit 8j+k (little endian);     *)
(* every other bit is zero.  Pack and Unpack below are that semantics;      *)
(* Valid is the derive macro's alignment rule.  Enumerations decode through *)
(* EnumDecode, which follows Rust's rule for implicit discriminants.        *)
(***************************************************************************)
EXTENDS Naturals, Integers, Sequences, FiniteSets, TLC

\* A field: [w |-> bits, pre |-> bits, post |-> bits, kind |-> "bits"|"bool"|"int"|"arr"|"enum"|"nested"]
\* (a nested field also has inner |-> the layout of the struct it holds, TotalBits(inner) = w)

RECURSIVE StartOf(_, _)
StartOf(L, i) == IF i = 1 THEN L[1].pre ELSE StartOf(L, i - 1) + L[i - 1].w + L[i - 1].post + L[i].pre

TotalBits(L) == IF Len(L) = 0 THEN 0 ELSE StartOf(L, Len(L)) + L[Len(L)].w + L[Len(L)].post

PackedLen(L) == (TotalBits(L) + 7) \div 8

\* the derive macro's rules (parse_struct.rs)
FieldValid(L, i) ==
    LET s == StartOf(L, i)
        w == L[i].w
        firstByte == s \div 8
        lastByte == (s + w + 7) \div 8        \* exclusive
        spans == lastByte - firstByte
    IN /\ w >= 1
       /\ (spans > 1 => (s % 8 = 0 /\ w % 8 = 0))      \* multi-byte fields byte aligned at both ends
       /\ (w < 8 => spans = 1)                          \* small fields do not cross a byte boundary
       /\ (L[i].kind = "bool" => w = 1)
       /\ (L[i].kind = "int" => w \in {16, 32, 64})
       /\ (L[i].kind = "arr" => w % 8 = 0 /\ w >= 8)
       /\ (L[i].kind = "bits" => w <= 8)
       /\ (L[i].kind = "enum" => w <= 8 \/ w = 16)
       /\ (L[i].kind = "nested" => w % 8 = 0 /\ w >= 8)       \* (its own layout is judged where it is used)

Valid(L) == Len(L) >= 1 /\ \A i \in 1..Len(L) : FieldValid(L, i)

\* ---------------------------------------------------------------------------
\* Values.  The wire image of a field value is given as little-endian bytes
\* (ceil(w/8) of them; a sub-byte field is one byte whose value is < 2^w).

Pow2(n) == IF n = 0 THEN 1 ELSE IF n = 1 THEN 2 ELSE IF n = 2 THEN 4 ELSE IF n = 3 THEN 8
           ELSE IF n = 4 THEN 16 ELSE IF n = 5 THEN 32 ELSE IF n = 6 THEN 64 ELSE IF n = 7 THEN 128 ELSE 256

Bit(bytes, k) == (bytes[(k \div 8) + 1] \div Pow2(k % 8)) % 2

\* which field (if any) owns global bit g, and which of its bits
Owner(L, g) == {i \in 1..Len(L) : StartOf(L, i) <= g /\ g < StartOf(L, i) + L[i].w}

PackBit(L, vals, g) ==
    LET o == Owner(L, g) IN
    IF o = {} THEN 0
    ELSE LET i == CHOOSE x \in o : TRUE IN Bit(vals[i], g - StartOf(L, i))

PackByte(L, vals, j) ==
    LET b(k) == PackBit(L, vals, 8 * j + k)
    IN b(0) + 2 * b(1) + 4 * b(2) + 8 * b(3) + 16 * b(4) + 32 * b(5) + 64 * b(6) + 128 * b(7)

\* the packed image: PackedLen(L) bytes
Pack(L, vals) == [j \in 1..PackedLen(L) |-> PackByte(L, vals, j - 1)]

\* the wire image of field i found in a buffer of at least PackedLen(L) bytes
UnpackField(L, buf, i) ==
    LET s == StartOf(L, i)
        w == L[i].w
        n == (w + 7) \div 8
        bitAt(k) == IF k < w THEN Bit(buf, s + k) ELSE 0
        byteAt(j) == bitAt(8 * j) + 2 * bitAt(8 * j + 1) + 4 * bitAt(8 * j + 2) + 8 * bitAt(8 * j + 3)
                     + 16 * bitAt(8 * j + 4) + 32 * bitAt(8 * j + 5) + 64 * bitAt(8 * j + 6)
                     + 128 * bitAt(8 * j + 7)
    IN [j \in 1..n |-> byteAt(j - 1)]

Unpack(L, buf) == [i \in 1..Len(L) |-> UnpackField(L, buf, i)]

\* ---------------------------------------------------------------------------
\* Enumerations.  A definition is a sequence of variants [d |-> explicit discriminant or -1,
\* alts |-> set of alternative raw values], plus catchAll / dflt (index of the default variant or 0).
\* Rust: an implicit discriminant is the previous one plus one, the first is 0.

RECURSIVE Discr(_, _)
Discr(vs, i) == IF vs[i].d # -1 THEN vs[i].d ELSE IF i = 1 THEN 0 ELSE Discr(vs, i - 1) + 1

\* what a raw value decodes to: <<"variant", i>>, <<"catchall", raw>> or <<"error">>
EnumDecode(def, raw) ==
    LET hits == {i \in 1..Len(def.vs) : Discr(def.vs, i) = raw \/ raw \in def.vs[i].alts}
    IN IF hits # {} THEN <<"variant", CHOOSE i \in hits : \A j \in hits : i <= j>>
       ELSE IF def.catchAll THEN <<"catchall", raw>>
       ELSE IF def.dflt # 0 THEN <<"variant", def.dflt>>
       ELSE <<"error">>

\* what variant i encodes to
EnumEncode(def, i) == Discr(def.vs, i)

\* ---------------------------------------------------------------------------
\* Model checking: layouts are built field by field

CONSTANTS Widths, Skips, MaxFields, Kinds

VARIABLES layout, finished

wlvars == <<layout, finished>>

KindsFor(w) ==
    {k \in Kinds : \/ k = "bits" /\ w <= 8
                   \/ k = "bool" /\ w = 1
                   \/ k = "int" /\ w \in {16, 32, 64}
                   \/ k = "arr" /\ w % 8 = 0 /\ w <= 32
                   \/ k = "enum" /\ (w <= 8 \/ w = 16)}

WlInit == layout = <<>> /\ finished = FALSE

AddField(w, pre, post, k) ==
    /\ ~finished /\ Len(layout) < MaxFields
    /\ k \in KindsFor(w)
    /\ LET L2 == Append(layout, [w |-> w, pre |-> pre, post |-> post, kind |-> k]) IN
       /\ Valid(L2)
       /\ layout' = L2
    /\ UNCHANGED finished

Finish ==
    /\ ~finished /\ Len(layout) >= 1
    /\ finished' = TRUE
    /\ UNCHANGED layout

WlNext ==
    \/ \E w \in Widths, pre \in Skips, post \in Skips, k \in Kinds : AddField(w, pre, post, k)
    \/ Finish

WlSpec == WlInit /\ [][WlNext]_wlvars

\* ---------------------------------------------------------------------------
\* C19 on the model (evaluated on finished layouts with three value patterns)

Ones(w) == [j \in 1..((w + 7) \div 8) |->
               IF 8 * j <= w THEN 255 ELSE Pow2(w - 8 * (j - 1)) - 1]
ZerosV(w) == [j \in 1..((w + 7) \div 8) |-> 0]
AllOnes(L) == [i \in 1..Len(L) |-> Ones(L[i].w)]
Walk(L, k) == [i \in 1..Len(L) |-> IF i = k THEN Ones(L[i].w) ELSE ZerosV(L[i].w)]

\* fields never overlap
NoOverlap == finished => \A g \in 0..(TotalBits(layout) - 1) : Cardinality(Owner(layout, g)) <= 1

\* packing then unpacking gives the value back
RoundTrip ==
    finished => /\ Unpack(layout, Pack(layout, AllOnes(layout))) = AllOnes(layout)
                /\ \A k \in 1..Len(layout) :
                      Unpack(layout, Pack(layout, Walk(layout, k))) = Walk(layout, k)

\* undeclared bits are zero: with all fields all-ones the number of one bits is the sum of widths
RECURSIVE SumW(_, _)
SumW(L, i) == IF i = 0 THEN 0 ELSE SumW(L, i - 1) + L[i].w
OneBits(bytes) ==
    LET F[j \in 0..Len(bytes)] ==
          IF j = 0 THEN 0
          ELSE F[j - 1] + Cardinality({k \in 0..7 : (bytes[j] \div Pow2(k)) % 2 = 1})
    IN F[Len(bytes)]
UndeclaredZero ==
    finished => OneBits(Pack(layout, AllOnes(layout))) = SumW(layout, Len(layout))

\* a struct of whole bytes used as a field of another struct: its image sits in the outer image unchanged, and
\* taking the outer image apart gives its fields back
NestedTransparent ==
    finished /\ TotalBits(layout) % 8 = 0 /\ TotalBits(layout) <= 64 =>
        LET w == TotalBits(layout)
            outer == <<[w |-> 3, pre |-> 1, post |-> 4, kind |-> "bits"],
                       [w |-> w, pre |-> 0, post |-> 0, kind |-> "nested"],
                       [w |-> 8, pre |-> 0, post |-> 0, kind |-> "bits"]>>
            img == Pack(layout, AllOnes(layout))
            whole == Pack(outer, <<<<5>>, img, <<129>>>>)
        IN /\ Valid(outer)
           /\ UnpackField(outer, whole, 2) = img
           /\ Unpack(layout, UnpackField(outer, whole, 2)) = AllOnes(layout)
           /\ UnpackField(outer, whole, 1) = <<5>> /\ UnpackField(outer, whole, 3) = <<129>>

=============================================================================
