--------------------------- MODULE PdiLayoutTrace ---------------------------
(***************************************************************************)
(* C08 on executions.  One trace line = one simulated network (1..16       *)
(* devices with random PDO sets, CoE and EEPROM configured, several sync   *)
(* managers per direction, FMMU_EX, oversampling) dealt to 1..3 groups,    *)
(* brought to SAFE-OP / OP by the real MainDevice, random distinct outputs *)
(* written through the SubDevice views, one process data cycle run.        *)
(* Recorded: the SM and FMMU registers each device ended up with, the      *)
(* lengths of every SubDevice's input / output view, the process memory of *)
(* every device after the cycle, the views after the cycle, the group      *)
(* start addresses and image lengths seen on the wire.                     *)
(*                                                                         *)
(* Monitor (verdict on the property, from observations and the device      *)
(* descriptions only): view lengths are what the PDOs need; each device's  *)
(* FMMUs translate exactly its windows to its process data bytes; windows  *)
(* of a group are disjoint, inputs before outputs, inside the image; the   *)
(* image fits the declared capacity, else the group fails with PdiTooLong; *)
(* groups are disjoint; what was written to a SubDevice's outputs is what  *)
(* its output memory holds, its input memory is what its inputs show.      *)
(*                                                                         *)
(* Conformance: the PdiLayout model, started from the same devices,        *)
(* groups, capacity and group start addresses, must end with the same FMMU *)
(* and SM registers, window lengths and group results.                     *)
(***************************************************************************)
EXTENDS PdiLayout, Json, IOUtils

Rec == ndJsonDeserialize(IOEnv.TRACE)

VARIABLE ri
tvars == <<plvars, ri>>

ASSUME TLCSet(3, 0)
ASSUME TLCSet(4, 0)
ASSUME TLCSet(5, 0)

Modelled(r) == r.modelled

TInit ==
    \E i \in 1..Len(Rec) :
        /\ ri = i
        /\ IF Modelled(Rec[i])
           THEN PlInitWith(Rec[i].devs, Rec[i].groups, Rec[i].max_pdi, Rec[i].gstart)
           ELSE /\ PlInitWith(<<>>, 1, 0, <<0>>)

TNext == PlNext /\ UNCHANGED ri
TraceSpec == TInit /\ [][TNext]_tvars

\* ---- monitor ----------------------------------------------------------------------------
Flat(ss) == LET F[i \in 0..Len(ss)] == IF i = 0 THEN <<>> ELSE F[i - 1] \o ss[i] IN F[Len(ss)]

\* observed FMMUs of a device: sequence of [enable, logical, len, phys, type] (type 1 = outputs, 2 = inputs)
ObsReach(fs, type, la) ==
    {fs[k].phys + (la - fs[k].logical) :
        k \in {k \in 1..Len(fs) : fs[k].enable /\ fs[k].type = type /\ fs[k].len > 0
                                   /\ la >= fs[k].logical /\ la < fs[k].logical + fs[k].len}}

Active(fs, type) == {k \in 1..Len(fs) : fs[k].enable /\ fs[k].type = type /\ fs[k].len > 0}
MinLogical(fs, type) == LET A == Active(fs, type) IN
                        IF A = {} THEN -1 ELSE fs[CHOOSE k \in A : \A j \in A : fs[k].logical <= fs[j].logical].logical

NonEmpty(sms) == SelectSeq(sms, LAMBDA s : s.len > 0)

\* one direction of one device: the window its FMMUs describe must be translated byte by byte to the device's
\* process data bytes, and no FMMU of that type may map anything else
DirErrors(tag, i, fs, type, sms, wlen) ==
    LET ws == MinLogical(fs, type)
        need == Need(sms)
        ne == NonEmpty(sms)
    IN (IF wlen # need THEN {<<"LengthWrong", tag, i, wlen, need>>} ELSE {})
       \cup (IF need > 0 /\ ws < 0 THEN {<<"NoFmmu", tag, i>>} ELSE {})
       \cup (IF need > 0 /\ ws >= 0 /\ \E j \in 0..(need - 1) : ObsReach(fs, type, ws + j) # {PhysOf(ne, j)}
             THEN {<<"MapWrong", tag, i, ws>>} ELSE {})
       \cup (IF \E k \in Active(fs, type) : fs[k].logical + fs[k].len > ws + need
             THEN {<<"MapsMore", tag, i>>} ELSE {})

GroupErrors(r, g) ==
    LET gr == r.obs_groups[g]
        ms == gr.members                      \* ring positions (1-based)
        Win(i, type) == [s |-> MinLogical(r.obs_fmmu[i], type),
                         l |-> Need(IF type = 2 THEN r.devs[i].ins ELSE r.devs[i].outs)]
        need == LET S[n \in 0..Len(ms)] == IF n = 0 THEN 0
                                            ELSE S[n - 1] + Need(r.devs[ms[n]].ins) + Need(r.devs[ms[n]].outs) IN S[Len(ms)]
    IN IF gr.result \in {"panic", "hang", "budget"} THEN {<<"NotTotal", g, gr.result>>}
       ELSE IF need > r.max_pdi
       THEN (IF gr.result # "err:PdiTooLong" THEN {<<"TooLongNotRefused", g, need, gr.result>>} ELSE {})
       ELSE IF gr.result = "err:PdiTooLong" THEN {<<"FitsButRefused", g, need>>}
       \* the generated devices are well-formed: nothing but the capacity can make the configuration fail
       ELSE IF gr.result # "ok" THEN {<<"ConfigurationFailed", g, gr.result>>}
       ELSE
        UNION { DirErrors("in", ms[n], r.obs_fmmu[ms[n]], 2, r.devs[ms[n]].ins, gr.subs[n].in_len)
                \cup DirErrors("out", ms[n], r.obs_fmmu[ms[n]], 1, r.devs[ms[n]].outs, gr.subs[n].out_len)
                \cup (IF gr.subs[n].outputs_after # Flat(gr.subs[n].out_mem)
                      THEN {<<"OutputsNotInDevice", ms[n], gr.subs[n].outputs_after, Flat(gr.subs[n].out_mem)>>} ELSE {})
                \cup (IF gr.subs[n].inputs_after # Flat(gr.subs[n].in_mem)
                      THEN {<<"InputsNotFromDevice", ms[n], gr.subs[n].inputs_after, Flat(gr.subs[n].in_mem)>>} ELSE {})
                \cup (IF gr.subs[n].outputs_after # gr.subs[n].outputs_written
                      THEN {<<"OutputsChanged", ms[n]>>} ELSE {})
              : n \in 1..Len(ms) }
        \cup (IF \E a, b \in 1..Len(ms) : \E ta, tb \in {1, 2} :
                    (a # b \/ ta # tb) /\ Win(ms[a], ta).l > 0 /\ Win(ms[b], tb).l > 0
                    /\ Win(ms[a], ta).s < Win(ms[b], tb).s + Win(ms[b], tb).l
                    /\ Win(ms[b], tb).s < Win(ms[a], ta).s + Win(ms[a], ta).l
              THEN {<<"WindowsOverlap", g>>} ELSE {})
        \cup (IF \E a, b \in 1..Len(ms) : Win(ms[a], 2).l > 0 /\ Win(ms[b], 1).l > 0 /\ Win(ms[a], 2).s > Win(ms[b], 1).s
              THEN {<<"InputAfterOutput", g>>} ELSE {})
        \cup (IF \E a \in 1..Len(ms) : \E t \in {1, 2} :
                    Win(ms[a], t).l > 0 /\ (Win(ms[a], t).s < gr.start \/ Win(ms[a], t).s + Win(ms[a], t).l > gr.start + gr.pdi_len)
              THEN {<<"OutsideImage", g>>} ELSE {})
        \cup (IF gr.pdi_len > r.max_pdi THEN {<<"ImageExceedsCapacity", g, gr.pdi_len>>} ELSE {})
        \cup (IF gr.pdi_len # need THEN {<<"ImageLength", g, gr.pdi_len, need>>} ELSE {})

MonitorErrors(r) ==
    IF ~Modelled(r) THEN (IF r.result \in {"panic", "hang", "budget"} THEN {<<"NotTotal", r.result, r.stage>>} ELSE {})
    ELSE UNION {GroupErrors(r, g) : g \in 1..Len(r.obs_groups)}
         \cup (IF \E g, h \in 1..Len(r.obs_groups) :
                    g # h /\ r.obs_groups[g].result = "ok" /\ r.obs_groups[h].result = "ok"
                    /\ r.obs_groups[g].pdi_len > 0 /\ r.obs_groups[h].pdi_len > 0
                    /\ r.obs_groups[g].start < r.obs_groups[h].start + r.obs_groups[h].pdi_len
                    /\ r.obs_groups[h].start < r.obs_groups[g].start + r.obs_groups[g].pdi_len
               THEN {<<"GroupsOverlap">>} ELSE {})

\* ---- conformance ------------------------------------------------------------------------
ModelFmmu(i) == [k \in 1..8 |-> fmmu[i][k - 1]]

Divergences(r) ==
    UNION { (IF result[g] # r.obs_groups[g].result /\ r.obs_groups[g].result \in {"ok", "err:PdiTooLong", "err:NotFound"}
             THEN {<<"result", g, result[g], r.obs_groups[g].result>>} ELSE {})
            \cup (IF r.obs_groups[g].result = "ok" /\ result[g] = "ok"
                  THEN UNION { (IF ModelFmmu(i) # r.obs_fmmu[i] THEN {<<"fmmu", i, ToString(ModelFmmu(i)), ToString(r.obs_fmmu[i])>>} ELSE {})
                               \cup (IF \E k \in 1..Len(r.devs[i].ins \o r.devs[i].outs) :
                                            LET s == (r.devs[i].ins \o r.devs[i].outs)[k] IN
                                            r.obs_sm[i][s.sm + 1] # [start |-> smreg[i][s.sm].start, len |-> smreg[i][s.sm].len,
                                                                      enable |-> smreg[i][s.sm].enable]
                                     THEN {<<"sm", i, ToString(r.obs_sm[i])>>} ELSE {})
                             : i \in {r.obs_groups[g].members[n] : n \in 1..Len(r.obs_groups[g].members)} }
                       \cup (IF glen[g] # r.obs_groups[g].pdi_len THEN {<<"glen", g, glen[g], r.obs_groups[g].pdi_len>>} ELSE {})
                  ELSE {})
          : g \in 1..Len(r.obs_groups) }

Judge ==
    (pc = "done") =>
        LET r == Rec[ri]
            me == MonitorErrors(r)
            de == IF Modelled(r) THEN Divergences(r) ELSE {} IN
        /\ TLCSet(5, TLCGet(5) + 1)
        /\ (me # {} => /\ PrintT(ToJson([kind |-> "VIOL", case |-> r.case.id, errs |-> ToString(me)]))
                       /\ TLCSet(3, TLCGet(3) + 1))
        /\ (de # {} => /\ PrintT(ToJson([kind |-> "DIVERGE", case |-> r.case.id, errs |-> ToString(de)]))
                       /\ TLCSet(4, TLCGet(4) + 1))

Report ==
    PrintT(ToJson([kind |-> "SUMMARY", cases |-> Len(Rec), judged |-> TLCGet(5), violations |-> TLCGet(3),
                   divergences |-> TLCGet(4)]))

=============================================================================
