--------------------------- MODULE PduLoopMonitor ---------------------------
(***************************************************************************)
(* Property monitor for executions of the real PDU loop.  It consumes the   *)
(* same NDJSON trace as PduLoopTrace but never rejects an event: it only    *)
(* maintains ghost state computed from the events (who is inside which      *)
(* buffer, who owns which slot, which responses the network produced,       *)
(* which bytes were transmitted for which request, what each caller's view  *)
(* must show) and records every observation that contradicts one of the     *)
(* properties C01, C02, C03, C06 as stated.  Nothing here depends on the    *)
(* implementation following the PduLoop specification step by step, so a    *)
(* behaviour-preserving refactoring cannot raise a violation.               *)
(*                                                                         *)
(* The verdicts are printed per run as JSON by the post-condition; the      *)
(* check driver maps violation kinds to properties.                         *)
(***************************************************************************)
EXTENDS Naturals, Integers, Sequences, FiniteSets, TLC, Json, IOUtils

CONSTANTS N, NApps

Rec == ndJsonDeserialize(IOEnv.TRACE)

Slots == 0 .. (N - 1)
Apps == 0 .. (NApps - 1)
NoApp == 99
None == 0  Created == 1  Sendable == 2  Sending == 3
Sent == 4  RxBusy == 5   RxDone == 6    RxProcessing == 7

Edges == { <<None, Created>>, <<Created, Sendable>>, <<Created, None>>, <<Sendable, Sending>>,
           <<Sending, Sent>>, <<Sending, Sendable>>, <<Sent, RxBusy>>, <<RxBusy, RxDone>>,
           <<RxDone, RxProcessing>>, <<RxProcessing, None>> }

VARIABLES l, run, m

IsInit(i) == "e" \in DOMAIN Rec[i]
Starts == {i \in 1..Len(Rec) : IsInit(i)}
EndOf(i) ==
    LET later == {j \in Starts : j > i} IN
    IF later = {} THEN Len(Rec) + 1
    ELSE CHOOSE j \in later : \A k \in later : j <= k

ASSUME TLCSet(1, [i \in Starts |-> <<>>])
ASSUME TLCSet(2, 0)

Min(a, b) == IF a < b THEN a ELSE b

\* ---------------------------------------------------------------------------
\* ghost state

M0(r) ==
    [ st     |-> r.st,
      buf    |-> r.buf,
      bidx   |-> r.bidx,
      acc    |-> [s \in Slots |-> {}],          \* parties inside: <<process, mode>>
      owner  |-> [s \in Slots |-> NoApp],
      slotOf |-> [a \in Apps |-> 0],
      k      |-> [a \in Apps |-> 0],
      rt     |-> [a \in Apps |-> 0],
      txs    |-> [a \in Apps |-> <<>>],         \* frames transmitted for the current request
      view   |-> [a \in Apps |-> [active |-> FALSE, bytes |-> <<>>, slot |-> 0]],
      done   |-> [a \in Apps |-> FALSE],       \* the current request completed with a response
      mustWin |-> [a \in Apps |-> FALSE],     \* the response was already received when the deadline was examined
      fires  |-> [a \in Apps |-> 0],           \* deadlines of the current request that have passed
      resp   |-> {},                            \* <<a, k, j, data, wkc>> the network produced
      hand   |-> <<NoApp, 0>>,                  \* request whose response the receive side holds
      handGenuine |-> FALSE,
      strict |-> ~(r.cfg.allow_timer \/ r.cfg.allow_abandon),
      viol   |-> {} ]

V(mm, kind, pos, d) == [mm EXCEPT !.viol = @ \cup {[kind |-> kind, at |-> pos, d |-> ToString(d)]}]

\* ---------------------------------------------------------------------------
\* extra records produced inside a step

DropN(s, n) == SubSeq(s, n + 1, Len(s))

ApplyX(mm, x, pos, e) ==
    CASE x.e = "TxSend" ->
            LET b == x.bytes
                ok == Len(b) >= 30 /\ b[17] # 0 /\ b[27] \in Apps
            IN IF ~ok THEN mm
               ELSE LET a == b[27]  kk == b[28] IN
                    IF kk # mm.k[a] THEN mm
                    ELSE LET m1 == [mm EXCEPT !.txs[a] = Append(@, b)]
                             m2 == IF Len(mm.txs[a]) > 0 /\ b # mm.txs[a][1]
                                   THEN V(m1, "RetransmitDiffers", pos, <<a, kk>>) ELSE m1
                             m3 == IF Len(m1.txs[a]) > 1 + mm.rt[a]
                                   THEN V(m2, "TooManyTransmissions", pos, <<a, kk, Len(m1.txs[a])>>)
                                   ELSE m2
                         IN m3
      [] x.e = "Respond" ->
            LET new == { <<x.pdus[i].data[1] - 128, x.pdus[i].data[2], x.pdus[i].data[3],
                           x.pdus[i].data, x.pdus[i].wkc>> :
                         i \in {j \in 1..Len(x.pdus) : Len(x.pdus[j].data) = 4
                                                         /\ x.pdus[j].data[1] >= 128} }
                hd == IF Len(x.pdus) > 0 /\ Len(x.pdus[1].data) = 4 /\ x.pdus[1].data[1] >= 128
                      THEN <<x.pdus[1].data[1] - 128, x.pdus[1].data[2]>> ELSE <<NoApp, 0>>
                \* genuine: some slot is in state Sent and holds exactly this request
                gen == \E s \in Slots : /\ mm.st[s + 1] = Sent
                                        /\ mm.buf[s + 1] = <<"req", hd[1], hd[2]>>
            IN [mm EXCEPT !.resp = @ \cup new, !.hand = hd, !.handGenuine = gen]
      [] x.e = "RxResult" ->
            IF x.res # "Ok(Processed)" /\ mm.handGenuine
            THEN V(mm, "GenuineReject", pos, <<mm.hand, x.res>>) ELSE mm
      [] x.e = "Complete" ->
            LET a == x.a
                okResp == \E r \in mm.resp : /\ r[1] = a /\ r[2] = x.k /\ r[3] = 0
                                             /\ r[4] = x.view.bytes /\ r[5] = x.wkc
                m1 == IF okResp /\ x.k = mm.k[a] THEN mm
                      ELSE V(mm, "Misroute", pos, <<a, x.k, x.view.bytes, x.wkc>>)
                m2 == IF x.view.len = 4 /\ Len(x.view.bytes) = 4 THEN m1
                      ELSE V(m1, "ViewLen", pos, <<a, x.view.len>>)
            IN [m2 EXCEPT !.view[a] = [active |-> TRUE, bytes |-> x.view.bytes,
                                       slot |-> mm.slotOf[a]],
                          !.done[a] = TRUE]
      [] x.e = "ViewRead" ->
            LET a == x.a
                v == mm.view[a]
                m1 == IF x.view.bytes = v.bytes /\ x.view.len = Len(v.bytes) THEN mm
                      ELSE V(mm, "ViewChanged", pos, <<a, v.bytes, x.view.bytes>>)
                m2 == IF \E w \in mm.acc[v.slot] : w[1] # a /\ w[2] = 1
                      THEN V(m1, "ViewOverlap", pos, <<a, v.slot>>) ELSE m1
            IN m2
      [] x.e = "ViewTrim" ->
            LET a == x.a
                v == mm.view[a]
                ct == Min(x.ct, Len(v.bytes))
                want == DropN(v.bytes, ct)
                m1 == IF x.view.bytes = want /\ x.view.len = Len(want) THEN mm
                      ELSE V(mm, "TrimWrong", pos, <<a, x.ct, want, x.view.bytes, x.view.len>>)
            IN [m1 EXCEPT !.view[a].bytes = want]
      [] x.e = "ViewDrop" -> [mm EXCEPT !.view[x.a].active = FALSE]
      [] x.e = "Result" ->
            LET a == x.a
                m1 == IF x.res = "timeout" /\ e.tx_prompt /\ Len(mm.txs[a]) # 1 + mm.rt[a]
                      THEN V(mm, "TransmissionCount", pos, <<a, x.k, Len(mm.txs[a]), mm.rt[a]>>)
                      ELSE mm
                m2a == IF x.res = "ok" /\ ~mm.done[a]
                       THEN V(m1, "OkWithoutResponse", pos, <<a, x.k>>) ELSE m1
                m2 == IF x.res = "timeout" /\ mm.mustWin[a]
                      THEN V(m2a, "ResponseLostToDeadline", pos, <<a, x.k>>) ELSE m2a
            IN [m2 EXCEPT !.view[a].active = FALSE, !.done[a] = FALSE,
                          !.owner = [s \in Slots |-> IF @[s] = a THEN NoApp ELSE @[s]]]
      [] OTHER -> mm

RECURSIVE FoldX(_, _, _, _, _)
FoldX(mm, xs, i, pos, e) ==
    IF i > Len(xs) THEN mm ELSE FoldX(ApplyX(mm, xs[i], pos, e), xs, i + 1, pos, e)

\* ---------------------------------------------------------------------------
\* one step event

RECURSIVE SlotChecks(_, _, _, _)
SlotChecks(mm, e, s, pos) ==
    IF s = N THEN mm
    ELSE LET old == mm.st[s + 1]
             new == e.st[s + 1]
             m1 == IF old # new /\ mm.strict /\ <<old, new>> \notin Edges
                   THEN V(mm, "Lifecycle", pos, <<s, old, new, e.p, e.at>>) ELSE mm
             m2 == IF old = None /\ new = Created /\ e.p \in Apps
                   THEN LET m21 == IF m1.owner[s] # NoApp \/ m1.acc[s] # {}
                                   THEN V(m1, "ClaimNotFree", pos, <<s, m1.owner[s], e.p>>)
                                   ELSE m1
                        IN [m21 EXCEPT !.owner[s] = e.p, !.slotOf[e.p] = s]
                   ELSE m1
         IN SlotChecks(m2, e, s + 1, pos)

Windows(mm, e, pos) ==
    IF e.at = "BufBegin" /\ e.slot \in Slots
    THEN LET s == e.slot
             m1 == [mm EXCEPT !.acc[s] = @ \cup {<<e.p, e.a>>}]
             m2 == IF Cardinality(m1.acc[s]) > 1
                   THEN V(m1, "MutualExclusion", pos, <<s, m1.acc[s]>>) ELSE m1
             m3 == IF e.a = 1 /\ \E a \in Apps : /\ a # e.p /\ m2.view[a].active
                                                /\ m2.view[a].slot = s
                   THEN V(m2, "WriteWhileViewed", pos, <<s, e.p>>) ELSE m2
         IN m3
    ELSE IF e.at = "BufEnd" /\ e.slot \in Slots
    THEN [mm EXCEPT !.acc[e.slot] = {w \in @ : w[1] # e.p}]
    ELSE mm

StartOfReq(mm, e) ==
    IF e.at = "idle" /\ e.p \in Apps /\ e.c > 0
    THEN [mm EXCEPT !.k[e.p] = @ + 1, !.rt[e.p] = (e.c - 1) \div 8, !.txs[e.p] = <<>>, !.mustWin[e.p] = FALSE, !.fires[e.p] = 0]
    ELSE mm

\* the deadline is examined (timer polled) while the response has already been received
DeadlineExamined(mm, e) ==
    IF e.at = "TimerPoll" /\ e.p \in Apps /\ e.slot \in Slots /\ e.st[e.slot + 1] = RxDone
    THEN [mm EXCEPT !.mustWin[e.p] = TRUE] ELSE mm

\* "bounded": every deadline that passes uses up one transmission of the request's budget, whatever state the frame is
\* in - after 1 + retries of them the request has ended, no further deadline is armed for it
TimerFired(mm, e, pos) ==
    IF e.at = "TimerFire" /\ e.c \in Apps
    THEN LET a == e.c
             m1 == [mm EXCEPT !.fires[a] = @ + 1]
         IN IF m1.fires[a] > 1 + mm.rt[a] THEN V(m1, "DeadlinesBeyondBudget", pos, <<a, mm.k[a], m1.fires[a], mm.rt[a]>>) ELSE m1
    ELSE mm

ApplyStep(mm, e, pos) ==
    LET m1 == DeadlineExamined(StartOfReq(mm, e), e)
        m2 == SlotChecks(m1, e, 0, pos)
        m3 == Windows(m2, e, pos)
        m4 == IF "x" \in DOMAIN e THEN FoldX(m3, e.x, 1, pos, e) ELSE m3
        m5 == IF "panic" \in DOMAIN e THEN V(m4, "Panic", pos, <<e.p, e.panic>>) ELSE m4
    IN [m5 EXCEPT !.st = e.st, !.buf = e.buf, !.bidx = e.bidx]

ApplyProbe(mm, e, pos) ==
    LET m1 == IF e.stuck THEN V(mm, "Stuck", pos, <<e.st>>) ELSE mm
        m2 == IF ~e.stuck /\ e.count # N THEN V(m1, "Leak", pos, <<e.count, e.st>>) ELSE m1
        m3 == IF ~e.stuck /\ \E s \in Slots : e.post_st[s + 1] # None
              THEN V(m2, "LeakAfterProbe", pos, <<e.post_st>>) ELSE m2
    IN m3

\* ---------------------------------------------------------------------------

MonInit ==
    \E i \in Starts :
        /\ run = i
        /\ l = i + 1
        /\ m = M0(Rec[i])

TxPrompt(i) == IF "tx_prompt" \in DOMAIN Rec[i].cfg THEN Rec[i].cfg.tx_prompt ELSE FALSE

MonNext ==
    /\ l < EndOf(run)
    /\ LET e0 == Rec[l]
           e == e0 @@ [tx_prompt |-> TxPrompt(run)]
       IN m' = IF e.at = "Probe" THEN ApplyProbe(m, e, l)
               ELSE IF e.p < 0 THEN TimerFired([m EXCEPT !.st = e.st, !.buf = e.buf, !.bidx = e.bidx], e, l)
               ELSE ApplyStep(m, e, l)
    /\ l' = l + 1
    /\ run' = run

MonSpec == MonInit /\ [][MonNext]_<<l, run, m>>

\* runs end at their Probe event; record the verdict of each finished run
Track ==
    IF l = EndOf(run)
    THEN /\ TLCSet(1, [TLCGet(1) EXCEPT ![run] = <<m.viol>>])
         /\ TLCSet(2, TLCGet(2) + 1)
    ELSE TRUE

Report ==
    /\ \A i \in Starts :
          LET v == TLCGet(1)[i] IN
          IF v = <<>> THEN PrintT(ToJson([kind |-> "UNFINISHED", run |-> Rec[i].run, start |-> i]))
          ELSE \A x \in v[1] :
                  PrintT(ToJson([kind |-> "VIOL", run |-> Rec[i].run, start |-> i, v |-> x]))
    /\ PrintT(ToJson([kind |-> "SUMMARY", runs |-> Cardinality(Starts),
                      finished |-> TLCGet(2), events |-> Len(Rec)]))

=============================================================================
