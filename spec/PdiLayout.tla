------------------------------ MODULE PdiLayout ------------------------------
(***************************************************************************)
(* How the process data image of each group is laid out and programmed     *)
(* into the SubDevices (SubDeviceGroup::configure_fmmus in                 *)
(* src/subdevice_group/mod.rs, SubDeviceRef::configure_fmmus /             *)
(* configure_pdos_coe / configure_pdos_eeprom / write_sm_config /          *)
(* write_fmmu_config in src/subdevice/configuration.rs, the group start    *)
(* addresses handed out by SubDeviceGroupRef::into_pre_op).                *)
(*                                                                         *)
(* One action per (SubDevice, direction) configuration step: all inputs of *)
(* a group in SubDevice order, then all outputs, then the capacity check.  *)
(* A device is described by its process data sync managers per direction   *)
(* (index, physical start, byte length required by its PDO configuration   *)
(* after oversampling), its FMMU usage list, its FMMU_EX list and whether  *)
(* its PDOs come from CoE.                                                 *)
(*                                                                         *)
(* FMMU choice (the repaired code, PerSmFmmu = TRUE):                      *)
(*   CoE:    the k-th non-empty sync manager of a direction uses the k-th  *)
(*           FMMU whose usage is that direction; when the device lists     *)
(*           fewer, the remaining sync managers extend the last one.       *)
(*   EEPROM: the sync manager's own index (FMMU_EX does not change it).    *)
(* PerSmFmmu = FALSE is the code before the repair: always the first FMMU  *)
(* of the direction (CoE).                                                 *)
(***************************************************************************)
EXTENDS Naturals, Integers, Sequences, FiniteSets, TLC

CONSTANTS PerSmFmmu

\* the configuration (fixed during a behaviour; variables so that one model run covers many configurations and a
\* trace line can set them)
VARIABLES Devices,       \* sequence of device records, ring order
          NGroups,       \* devices are dealt round-robin to groups 1..NGroups
          MaxPdi,        \* image capacity the caller declared for every group
          GroupStart     \* function group -> logical start address
cfgvars == <<Devices, NGroups, MaxPdi, GroupStart>>

\* device record: [coe |-> BOOLEAN, ins |-> Seq([sm, start, len]), outs |-> Seq([sm, start, len]),
\*                 usage |-> Seq(0..3) (1 = outputs, 2 = inputs), fmmuEx |-> Seq(sm index)]
\* ins / outs list every sync manager the MainDevice takes for that direction, in index order, with the byte
\* length its PDOs need - 0 for one without PDOs (an all-zero "unused" entry decodes as an input sync manager)

NDev == Len(Devices)
GroupOf(i) == ((i - 1) % NGroups) + 1
Members(g) == SelectSeq([i \in 1..NDev |-> i], LAMBDA i : GroupOf(i) = g)

VARIABLES pc, grp, idx, offset, fmmu, smreg, win, glen, result
plvars == <<pc, grp, idx, offset, fmmu, smreg, win, glen, result, cfgvars>>

Off == [enable |-> FALSE, logical |-> 0, len |-> 0, phys |-> 0, type |-> 0]

PlInitWith(D, n, m, gs) ==
    /\ Devices = D /\ NGroups = n /\ MaxPdi = m /\ GroupStart = gs
    /\ pc = "in" /\ grp = 1 /\ idx = 1
    /\ offset = gs[1]
    /\ fmmu = [i \in 1..Len(D) |-> [k \in 0..15 |-> Off]]
    /\ smreg = [i \in 1..Len(D) |-> [k \in 0..15 |-> [start |-> 0, len |-> 0, enable |-> FALSE]]]
    /\ win = [i \in 1..Len(D) |-> [inStart |-> 0, inLen |-> 0, outStart |-> 0, outLen |-> 0]]
    /\ glen = [g \in 1..n |-> 0]
    /\ result = [g \in 1..n |-> "pending"]

\* ---- which FMMU a sync manager uses -----------------------------------------------------
Positions(s, v) == SelectSeq([k \in 1..Len(s) |-> k], LAMBDA k : s[k] = v)

\* CoE: `nth` is the number of non-empty sync managers of this direction configured before
CoeFmmu(dev, type, nth) ==
    LET ps == Positions(dev.usage, type) IN
    IF Len(ps) = 0 THEN -1
    ELSE IF ~PerSmFmmu THEN ps[1] - 1
    ELSE IF nth + 1 <= Len(ps) THEN ps[nth + 1] - 1 ELSE ps[Len(ps)] - 1

\* (the code looks the sync manager up in FMMU_EX but then uses the entry's sync manager index, i.e. always this)
EepromFmmu(dev, sm) == sm

\* write_fmmu_config: a fresh mapping, or the extension of one that is already enabled
WithSm(f, logical, sm, type) ==
    IF f.enable THEN [f EXCEPT !.len = @ + sm.len]
    ELSE [enable |-> TRUE, logical |-> logical, len |-> sm.len, phys |-> sm.start, type |-> type]

\* configure one direction of device i starting at logical address `at`: new FMMU table, SM registers, end address
\* (fold over the direction's sync managers in index order)
RECURSIVE Fold(_, _, _, _, _, _, _)
Fold(dev, sms, type, k, at, ft, nth) ==
    IF k > Len(sms) THEN [f |-> ft, at |-> at, err |-> FALSE]
    ELSE LET sm == sms[k] IN
         IF dev.coe
         THEN IF sm.len = 0 THEN Fold(dev, sms, type, k + 1, at, ft, nth)
              ELSE LET fi == CoeFmmu(dev, type, nth) IN
                   IF fi < 0 THEN [f |-> ft, at |-> at, err |-> TRUE]
                   ELSE Fold(dev, sms, type, k + 1, at + sm.len, [ft EXCEPT ![fi] = WithSm(@, at, sm, type)], nth + 1)
         ELSE LET fi == EepromFmmu(dev, sm.sm) IN
              Fold(dev, sms, type, k + 1, at + sm.len, [ft EXCEPT ![fi] = WithSm(@, at, sm, type)], nth + 1)

SmRegs(regs, sms) ==
    [k \in 0..15 |-> IF \E j \in 1..Len(sms) : sms[j].sm = k
                     THEN LET s == sms[CHOOSE j \in 1..Len(sms) : sms[j].sm = k]
                          IN [start |-> s.start, len |-> s.len, enable |-> s.len > 0]
                     ELSE regs[k]]

Config(dir) ==
    /\ pc = dir
    /\ idx <= Len(Members(grp))
    /\ LET i == Members(grp)[idx]
           dev == Devices[i]
           sms == IF dir = "in" THEN dev.ins ELSE dev.outs
           r == Fold(dev, sms, IF dir = "in" THEN 2 ELSE 1, 1, offset, fmmu[i], 0)
       IN IF r.err
          THEN /\ result' = [result EXCEPT ![grp] = "err:NotFound"]
               /\ pc' = "next" /\ UNCHANGED <<offset, fmmu, smreg, win, idx>>
          ELSE /\ fmmu' = [fmmu EXCEPT ![i] = r.f]
               /\ smreg' = [smreg EXCEPT ![i] = SmRegs(@, sms)]
               /\ win' = [win EXCEPT ![i] = IF dir = "in"
                                           THEN [@ EXCEPT !.inStart = offset - GroupStart[grp], !.inLen = r.at - offset]
                                           ELSE [@ EXCEPT !.outStart = offset - GroupStart[grp], !.outLen = r.at - offset]]
               /\ offset' = r.at
               /\ idx' = idx + 1
               /\ UNCHANGED <<pc, result>>
    /\ UNCHANGED <<grp, glen>>

Turn ==
    /\ pc \in {"in", "out"} /\ idx > Len(Members(grp))
    /\ IF pc = "in" THEN pc' = "out" /\ idx' = 1 /\ UNCHANGED <<glen, result>>
       ELSE /\ glen' = [glen EXCEPT ![grp] = offset - GroupStart[grp]]
            /\ result' = [result EXCEPT ![grp] = IF offset - GroupStart[grp] > MaxPdi THEN "err:PdiTooLong" ELSE "ok"]
            /\ pc' = "next" /\ UNCHANGED idx
    /\ UNCHANGED <<grp, offset, fmmu, smreg, win>>

NextGroup ==
    /\ pc = "next"
    /\ IF grp = NGroups THEN pc' = "done" /\ UNCHANGED <<grp, idx, offset>>
       ELSE pc' = "in" /\ grp' = grp + 1 /\ idx' = 1 /\ offset' = GroupStart[grp + 1]
    /\ UNCHANGED <<fmmu, smreg, win, glen, result>>

PlNext == (Config("in") \/ Config("out") \/ Turn \/ NextGroup) /\ UNCHANGED cfgvars

\* ---------------------------------------------------------------------------
\* C08 on the model.  Judged for groups that came up ("ok").

Up(g) == result[g] = "ok"
Done == pc = "done"

Need(sms) == LET F[k \in 0..Len(sms)] == IF k = 0 THEN 0 ELSE F[k - 1] + sms[k].len IN F[Len(sms)]

\* byte lengths are what the PDO configuration requires
LengthsRight ==
    Done => \A i \in 1..NDev : Up(GroupOf(i)) =>
                /\ win[i].inLen = Need(Devices[i].ins)
                /\ win[i].outLen = Need(Devices[i].outs)

\* inside the image, all inputs before all outputs, mutually disjoint
Range(s, l) == s..(s + l - 1)
WindowsRight ==
    Done => \A g \in 1..NGroups : Up(g) =>
        LET ms == {i \in 1..NDev : GroupOf(i) = g}
            readLen == LET S[n \in 0..NDev] == IF n = 0 THEN 0 ELSE S[n - 1] + (IF n \in ms THEN win[n].inLen ELSE 0) IN S[NDev]
        IN /\ \A i \in ms : /\ Range(win[i].inStart, win[i].inLen) \subseteq 0..(glen[g] - 1)
                            /\ Range(win[i].outStart, win[i].outLen) \subseteq 0..(glen[g] - 1)
                            /\ Range(win[i].inStart, win[i].inLen) \subseteq 0..(readLen - 1)
                            /\ \A b \in Range(win[i].outStart, win[i].outLen) : b >= readLen
           /\ \A i, j \in ms : i # j =>
                /\ Range(win[i].inStart, win[i].inLen) \cap Range(win[j].inStart, win[j].inLen) = {}
                /\ Range(win[i].outStart, win[i].outLen) \cap Range(win[j].outStart, win[j].outLen) = {}
           /\ glen[g] <= MaxPdi

\* the physical address a logical address reaches in device i through its FMMUs of a type (set: must be a singleton)
Reach(i, type, la) ==
    {fmmu[i][k].phys + (la - fmmu[i][k].logical) :
        k \in {k \in 0..15 : fmmu[i][k].enable /\ fmmu[i][k].type = type /\ fmmu[i][k].len > 0
                               /\ la >= fmmu[i][k].logical /\ la < fmmu[i][k].logical + fmmu[i][k].len}}

\* the j-th process data byte of a direction: its physical address (sync managers in index order)
RECURSIVE PhysOf(_, _)
PhysOf(sms, j) == IF j < sms[1].len THEN sms[1].start + j ELSE PhysOf(Tail(sms), j - sms[1].len)

\* a device the FMMUs it lists can serve: sync managers that have to share an FMMU lie back to back
Contiguous(sms) == \A k \in 1..(Len(sms) - 1) : sms[k].len = 0 \/ sms[k + 1].len = 0 \/ sms[k + 1].start = sms[k].start + sms[k].len
WellFormed(dev) ==
    IF dev.coe
    THEN /\ (Need(dev.ins) > 0 => Len(Positions(dev.usage, 2)) > 0)
         /\ (Need(dev.outs) > 0 => Len(Positions(dev.usage, 1)) > 0)
         /\ (Len(Positions(dev.usage, 2)) < Cardinality({k \in 1..Len(dev.ins) : dev.ins[k].len > 0}) => Contiguous(dev.ins))
         /\ (Len(Positions(dev.usage, 1)) < Cardinality({k \in 1..Len(dev.outs) : dev.outs[k].len > 0}) => Contiguous(dev.outs))
    ELSE TRUE

\* the FMMUs map exactly the windows onto the device's process data memory
MapExact ==
    Done => \A i \in 1..NDev : (Up(GroupOf(i)) /\ WellFormed(Devices[i])) =>
        LET g == GroupOf(i)  dev == Devices[i] IN
        /\ \A j \in 0..(win[i].inLen - 1) :
                Reach(i, 2, GroupStart[g] + win[i].inStart + j) = {PhysOf(dev.ins, j)}
        /\ \A j \in 0..(win[i].outLen - 1) :
                Reach(i, 1, GroupStart[g] + win[i].outStart + j) = {PhysOf(dev.outs, j)}
        \* ... and nothing else: every enabled mapping lies inside the device's own windows
        /\ \A k \in 0..15 : (fmmu[i][k].enable /\ fmmu[i][k].len > 0) =>
                LET lo == fmmu[i][k].logical - GroupStart[g] IN
                IF fmmu[i][k].type = 2 THEN Range(lo, fmmu[i][k].len) \subseteq Range(win[i].inStart, win[i].inLen)
                ELSE Range(lo, fmmu[i][k].len) \subseteq Range(win[i].outStart, win[i].outLen)

\* sync managers: programmed with the required length, enabled iff non-empty
SmRight ==
    Done => \A i \in 1..NDev : Up(GroupOf(i)) =>
        LET all == Devices[i].ins \o Devices[i].outs IN
        \A k \in 1..Len(all) : smreg[i][all[k].sm] = [start |-> all[k].start, len |-> all[k].len, enable |-> all[k].len > 0]

\* images of different groups are disjoint
GroupsDisjoint ==
    Done => \A g, h \in 1..NGroups : (g # h /\ Up(g) /\ Up(h)) =>
                Range(GroupStart[g], glen[g]) \cap Range(GroupStart[h], glen[h]) = {}

\* a layout that does not fit is an error
TooLongIsError ==
    Done => \A g \in 1..NGroups : (result[g] = "ok" => glen[g] <= MaxPdi) /\ (result[g] = "err:PdiTooLong" => glen[g] > MaxPdi)

=============================================================================
