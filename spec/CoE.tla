-------------------------------- MODULE CoE --------------------------------
(***************************************************************************)
(* SDO upload and expedited download over the mailbox, at the level of the *)
(* bytes both sides put into the mailboxes (ETG1000.6 5.6.2: SDO upload    *)
(* expedited / normal / segmented, download expedited, abort; 5.6.4        *)
(* emergency).  Client = the MainDevice (src/mailbox/coe/mod.rs: sdo_read, *)
(* sdo_write, mailbox_write_read's triage), server = the SubDevice.        *)
(*                                                                         *)
(* One action per mailbox message: the client writes a request into the    *)
(* device's receive mailbox, the server puts a response (or an emergency,  *)
(* an abort, a response for another object) into its send mailbox, the     *)
(* client fetches and interprets it.  The server chooses freely among the  *)
(* responses the standard allows (expedited when the object has 1..4       *)
(* bytes, normal when it fits the mailbox, segmented with any split that   *)
(* fits, the last segment padded to 7 bytes), so TLC explores every        *)
(* segment-length pattern.                                                 *)
(***************************************************************************)
EXTENDS Naturals, Integers, Sequences, FiniteSets, TLC

CONSTANTS Objects,       \* set of byte sequences the device may hold under the requested index / sub-index
          MbxSizes,      \* mailbox sizes (bytes, including the 6 byte mailbox header)
          Dests,         \* destination descriptions [kind |-> "exact" | "upto", n |-> bytes]
          Faults,        \* subset of {"none", "abort", "emergency", "wrong_index", "wrong_sub"}
          DownloadValues, \* byte sequences (1..4 bytes) the client may write
          MaxRequests,   \* bound on requests per transfer (exploration bound)
          KeepInitData,  \* TRUE: the client keeps the data of the initiate response (the repaired code)
          SegDataAt      \* 1-based position of a segment's first data byte as the client sees it: 10 (repaired), 13

AbortCode == <<2, 0, 1, 6>>        \* 0x06010002 little endian
EmergencyMsg == <<48, 129, 17, 1, 2, 3, 4, 5>>     \* error code 0x8130, register 0x11, data

VARIABLES Index, Sub,                  \* the object addressed
          obj, mbx, dest, fault,       \* the configuration of this transfer
          pc,                          \* "idle" | "wait_init" | "need_seg" | "wait_seg" | "done"
          counter,                     \* mailbox counter of the last request (0 before the first)
          toggle,                      \* toggle bit of the next / outstanding segment request
          request,                     \* the request in the device's receive mailbox
          response,                    \* the response in the device's send mailbox (<<>> = empty)
          asm,                         \* bytes the client has assembled
          srvLeft,                     \* bytes the server still has to deliver (segmented), -1 = no transfer open
          emergencySent,               \* the server has already queued its emergency
          result,                      \* "pending" | "ok" | "err:..."
          value,                       \* what the caller gets
          nreq,
          wrote                        \* the bytes of the last download request (<<>> = none)

covars == <<Index, Sub, obj, mbx, dest, fault, pc, counter, toggle, request, response, asm, srvLeft, emergencySent, result, value, nreq, wrote>>

\* ---- bytes ------------------------------------------------------------------------------
LE16(x) == <<x % 256, x \div 256>>
LE32(x) == <<x % 256, (x \div 256) % 256, (x \div 65536) % 256, x \div 16777216>>
U16(m, i) == m[i] + 256 * m[i + 1]                      \* 1-based position
\* (TLC's integers are 32-bit signed: values of 2^31 and more are only ever compared with small bounds, so they
\* are represented by 2^31 - 1)
U32(m, i) == IF m[i + 3] >= 128 THEN 2147483647 ELSE m[i] + 256 * m[i + 1] + 65536 * m[i + 2] + 16777216 * m[i + 3]
Zeros(n) == [i \in 1..n |-> 0]
NextCounter(c) == IF c >= 7 THEN 1 ELSE c + 1

\* mailbox header: length, address 0, channel/priority 0, type CoE (3) + counter in bits 4..6
MbxHeader(len, cnt) == LE16(len) \o <<0, 0, 0, 3 + 16 * cnt>>
CoeHeader(service) == <<0, 16 * service>>          \* number 0, service in the high nibble
SdoRequest == 2
SdoResponse == 3
EmergencyService == 1

\* ---- client messages --------------------------------------------------------------------
\* initiate upload request: command 2 (bits 5..7), complete access bit 4
UploadRequest(cnt, ca) ==
    MbxHeader(10, cnt) \o CoeHeader(SdoRequest) \o <<64 + (IF ca THEN 16 ELSE 0)>> \o LE16(Index) \o <<Sub>> \o Zeros(4)

\* upload segment request: command 3, toggle bit 4
SegmentRequest(cnt, t) ==
    MbxHeader(10, cnt) \o CoeHeader(SdoRequest) \o <<96 + (IF t THEN 16 ELSE 0)>> \o Zeros(7)

\* expedited download request of 1..4 bytes: command 1, size indicated, expedited, size = 4 - n
DownloadRequest(cnt, data, ca) ==
    MbxHeader(10, cnt) \o CoeHeader(SdoRequest)
        \o <<32 + 1 + 2 + 4 * (4 - Len(data)) + (IF ca THEN 16 ELSE 0)>> \o LE16(Index) \o <<Sub>>
        \o data \o Zeros(4 - Len(data))

\* ---- server messages --------------------------------------------------------------------
ExpeditedResponse(cnt, data) ==
    MbxHeader(10, cnt) \o CoeHeader(SdoResponse) \o <<64 + 1 + 2 + 4 * (4 - Len(data))>> \o LE16(Index) \o <<Sub>>
        \o data \o Zeros(4 - Len(data))

\* normal / first part of a segmented upload: complete size, then `part`
NormalResponse(cnt, complete, part) ==
    MbxHeader(10 + Len(part), cnt) \o CoeHeader(SdoResponse) \o <<64 + 1>> \o LE16(Index) \o <<Sub>> \o LE32(complete) \o part

\* upload segment response: command 0, toggle, last flag, a part shorter than 7 bytes padded with the number of
\* unused bytes in bits 1..3
SegmentResponse(cnt, t, last, part) ==
    LET pad == IF Len(part) < 7 THEN 7 - Len(part) ELSE 0 IN
    MbxHeader(3 + Len(part) + pad, cnt) \o CoeHeader(SdoResponse)
        \o <<(IF last THEN 1 ELSE 0) + 2 * pad + (IF t THEN 16 ELSE 0)>> \o part \o Zeros(pad)

AbortMessage(cnt, idx, sub) ==
    MbxHeader(10, cnt) \o CoeHeader(SdoRequest) \o <<128>> \o LE16(idx) \o <<sub>> \o AbortCode

EmergencyMessage(cnt) == MbxHeader(10, cnt) \o CoeHeader(EmergencyService) \o EmergencyMsg

DownloadResponse(cnt) == MbxHeader(10, cnt) \o CoeHeader(SdoResponse) \o <<96>> \o LE16(Index) \o <<Sub>> \o Zeros(4)

\* ---- what the client makes of the destination --------------------------------------------
BufCap(d) == d.n
\* decoding `bytes` into the destination: integers / fixed arrays need at least n bytes and take n of them,
\* strings and vectors take what is there (at most n)
Decode(d, bytes) ==
    IF d.kind = "exact"
    THEN IF Len(bytes) >= d.n THEN [r |-> "ok", v |-> SubSeq(bytes, 1, d.n)] ELSE [r |-> "err:Pdu", v |-> <<>>]
    ELSE IF Len(bytes) <= d.n THEN [r |-> "ok", v |-> bytes] ELSE [r |-> "err:Pdu", v |-> <<>>]

\* ---- initial states ---------------------------------------------------------------------
CoInitWith(ix, sb, o, m, d, f) ==
    /\ Index = ix /\ Sub = sb
    /\ obj = o /\ mbx = m /\ dest = d /\ fault = f
    /\ pc = "idle" /\ counter = 0 /\ toggle = FALSE /\ request = <<>> /\ response = <<>> /\ asm = <<>>
    /\ srvLeft = -1 /\ emergencySent = FALSE /\ result = "pending" /\ value = <<>> /\ nreq = 0 /\ wrote = <<>>

\* 0x2100:03 - the protocol does not depend on the address
CoInit == \E o \in Objects, m \in MbxSizes, d \in Dests, f \in Faults : CoInitWith(8448, 3, o, m, d, f)

\* ---- client ------------------------------------------------------------------------------
\* what the client fetches is the whole send mailbox: the message followed by whatever the mailbox held before
FillByte == 165
Fetched(m) == IF Len(m) >= mbx THEN m ELSE m \o [i \in 1..(mbx - Len(m)) |-> FillByte]
Sat(a, b) == IF a >= b THEN a - b ELSE 0

Finish(r, v) == /\ pc' = "done" /\ result' = r /\ value' = v

ClientUploadCa(ca) ==
    /\ pc = "idle" /\ nreq < MaxRequests
    /\ counter' = NextCounter(counter)
    /\ request' = UploadRequest(NextCounter(counter), ca)
    /\ pc' = "wait_init" /\ nreq' = nreq + 1
    /\ UNCHANGED <<Index, Sub, obj, mbx, dest, fault, toggle, response, asm, srvLeft, emergencySent, result, value, wrote>>

ClientUpload == ClientUploadCa(FALSE)

\* the triage every response goes through (mailbox_write_read): emergency, abort, wrong type / object
Triage(m, checkObject) ==
    IF m[8] \div 16 = EmergencyService THEN "err:Emergency"
    ELSE IF m[9] \div 32 = 4 THEN "err:Aborted"
    ELSE IF m[6] % 16 # 3 \/ (checkObject /\ (U16(m, 10) # Index \/ m[12] # Sub)) THEN "err:SdoResponseInvalid"
    ELSE "fine"

ClientInitResponse ==
    /\ pc = "wait_init" /\ response # <<>>
    /\ LET m == Fetched(response)
           t == Triage(m, TRUE)
       IN /\ response' = <<>>
          /\ IF t # "fine" THEN Finish(t, <<>>) /\ UNCHANGED <<asm, toggle>>
             ELSE IF (m[9] \div 2) % 2 = 1                       \* expedited
             THEN LET n == 4 - ((m[9] \div 4) % 4)
                      dec == Decode(dest, SubSeq(m, 13, 12 + n))
                  IN Finish(dec.r, dec.v) /\ UNCHANGED <<asm, toggle>>
             ELSE LET dataLen == Sat(U16(m, 1), 10)
                      complete == U32(m, 13)
                  IN IF complete > BufCap(dest) THEN Finish("err:TooLong", <<>>) /\ UNCHANGED <<asm, toggle>>
                     ELSE IF 16 + dataLen > Len(m) THEN Finish("err:Internal", <<>>) /\ UNCHANGED <<asm, toggle>>
                     ELSE IF complete <= dataLen
                     THEN LET dec == Decode(dest, SubSeq(m, 17, 16 + dataLen))
                          IN Finish(dec.r, dec.v) /\ UNCHANGED <<asm, toggle>>
                     ELSE \* segmented: the first part arrived with the initiate response
                          /\ asm' = IF KeepInitData THEN SubSeq(m, 17, 16 + dataLen) ELSE <<>>
                          /\ toggle' = FALSE
                          /\ pc' = "need_seg" /\ UNCHANGED <<result, value>>
    /\ UNCHANGED <<Index, Sub, obj, mbx, dest, fault, counter, request, srvLeft, emergencySent, nreq, wrote>>

ClientSegmentRequest ==
    /\ pc = "need_seg" /\ nreq < MaxRequests
    /\ counter' = NextCounter(counter)
    /\ request' = SegmentRequest(NextCounter(counter), toggle)
    /\ pc' = "wait_seg" /\ nreq' = nreq + 1
    /\ UNCHANGED <<Index, Sub, obj, mbx, dest, fault, toggle, response, asm, srvLeft, emergencySent, result, value, wrote>>

ClientSegmentResponse ==
    /\ pc = "wait_seg" /\ response # <<>>
    /\ LET m == Fetched(response)
           t == Triage(m, FALSE)
       IN /\ response' = <<>>
          /\ IF t # "fine" THEN Finish(t, <<>>) /\ UNCHANGED <<asm, toggle>>
             ELSE IF U16(m, 1) < 3 THEN Finish("err:SdoResponseInvalid", <<>>) /\ UNCHANGED <<asm, toggle>>
             ELSE LET raw == U16(m, 1) - 3
                      chunk == IF raw = 7 THEN raw - ((m[9] \div 2) % 8) ELSE raw
                      last == m[9] % 2 = 1
                      all == asm \o [i \in 1..chunk |-> m[SegDataAt - 1 + i]]
                  IN \* a segment that neither carries data nor ends the transfer is refused (no progress)
                     IF chunk = 0 /\ ~last THEN Finish("err:SdoResponseInvalid", <<>>) /\ UNCHANGED <<asm, toggle>>
                     ELSE IF SegDataAt - 1 + chunk > Len(m) \/ Len(asm) + chunk > BufCap(dest)
                     THEN Finish("err:Internal", <<>>) /\ UNCHANGED <<asm, toggle>>
                     ELSE IF last
                     THEN LET dec == Decode(dest, all) IN Finish(dec.r, dec.v) /\ asm' = all /\ UNCHANGED toggle
                     ELSE /\ asm' = all /\ toggle' = ~toggle /\ pc' = "need_seg" /\ UNCHANGED <<result, value>>
    /\ UNCHANGED <<Index, Sub, obj, mbx, dest, fault, counter, request, srvLeft, emergencySent, nreq, wrote>>

\* expedited download of 1..4 bytes
ClientDownload(data, ca) ==
    /\ pc = "idle" /\ nreq < MaxRequests /\ Len(data) \in 1..4
    /\ counter' = NextCounter(counter)
    /\ request' = DownloadRequest(NextCounter(counter), data, ca)
    /\ pc' = "wait_dl" /\ nreq' = nreq + 1 /\ wrote' = data
    /\ UNCHANGED <<Index, Sub, obj, mbx, dest, fault, toggle, response, asm, srvLeft, emergencySent, result, value>>

ClientDownloadResponse ==
    /\ pc = "wait_dl" /\ response # <<>>
    /\ LET t == Triage(Fetched(response), TRUE) IN
       /\ response' = <<>>
       /\ IF t # "fine" THEN Finish(t, <<>>) ELSE Finish("ok", <<>>)
    /\ UNCHANGED <<Index, Sub, obj, mbx, dest, fault, counter, toggle, request, asm, srvLeft, emergencySent, nreq, wrote>>

\* ---- server ------------------------------------------------------------------------------
ReqCounter == request[6] \div 16
NormalCap == mbx - 16
SegmentCap == mbx - 9

\* the responses the standard allows to an initiate upload request for `obj`
InitResponses ==
    (IF Len(obj) \in 1..4 THEN {<<ExpeditedResponse(ReqCounter, obj), -1>>} ELSE {})
    \cup (IF Len(obj) <= NormalCap THEN {<<NormalResponse(ReqCounter, Len(obj), obj), -1>>} ELSE {})
    \cup {<<NormalResponse(ReqCounter, Len(obj), SubSeq(obj, 1, k)), Len(obj) - k>> :
            k \in {k \in 0..NormalCap : k < Len(obj)}}

EmergencyPending == fault = "emergency" /\ ~emergencySent

\* an emergency message is queued in front of the response
ServerEmergency ==
    /\ request # <<>> /\ response = <<>> /\ EmergencyPending
    /\ response' = EmergencyMessage(ReqCounter) /\ emergencySent' = TRUE
    /\ UNCHANGED <<Index, Sub, obj, mbx, dest, fault, pc, counter, toggle, request, asm, srvLeft, result, value, nreq, wrote>>

ServerRespond ==
    /\ request # <<>> /\ response = <<>> /\ request[9] \div 32 \in {2, 3} /\ ~EmergencyPending
    /\ request' = <<>>
    /\ IF request[9] \div 32 = 2                          \* initiate upload
       THEN IF fault = "abort" THEN response' = AbortMessage(ReqCounter, Index, Sub) /\ UNCHANGED srvLeft
            ELSE \E r \in InitResponses : response' = r[1] /\ srvLeft' = r[2]
       ELSE \* upload segment request
            IF srvLeft < 0 \/ ((request[9] \div 16) % 2 = 1) # toggle
            THEN response' = AbortMessage(ReqCounter, 0, 0) /\ srvLeft' = -1
            ELSE \E k \in 0..(IF srvLeft < SegmentCap THEN srvLeft ELSE SegmentCap) :
                    /\ (k > 0 \/ srvLeft = 0)
                    /\ LET done == Len(obj) - srvLeft IN
                       response' = SegmentResponse(ReqCounter, toggle, k = srvLeft, SubSeq(obj, done + 1, done + k))
                    /\ srvLeft' = IF k = srvLeft THEN -1 ELSE srvLeft - k
    /\ UNCHANGED <<Index, Sub, obj, mbx, dest, fault, pc, counter, toggle, asm, emergencySent, result, value, nreq, wrote>>

\* expedited download: the device stores the bytes and confirms
ServerDownload ==
    /\ request # <<>> /\ response = <<>> /\ request[9] \div 32 = 1 /\ ~EmergencyPending
    /\ request' = <<>>
    /\ IF fault = "abort" THEN response' = AbortMessage(ReqCounter, Index, Sub) /\ UNCHANGED obj
       ELSE /\ obj' = SubSeq(request, 13, 12 + (4 - ((request[9] \div 4) % 4)))
            /\ response' = DownloadResponse(ReqCounter)
    /\ UNCHANGED <<Index, Sub, mbx, dest, fault, pc, counter, toggle, asm, srvLeft, emergencySent, result, value, nreq, wrote>>

\* a response for another object / sub-index (the device answers an older request, say)
ServerWrongObject ==
    /\ request # <<>> /\ response = <<>> /\ fault \in {"wrong_index", "wrong_sub"} /\ request[9] \div 32 \in {1, 2}
    /\ request' = <<>>
    /\ response' = LET good == IF request[9] \div 32 = 2 THEN ExpeditedResponse(ReqCounter, <<1, 2, 3, 4>>)
                               ELSE DownloadResponse(ReqCounter) IN
                   IF fault = "wrong_index" THEN [good EXCEPT ![10] = (@ + 1) % 256] ELSE [good EXCEPT ![12] = (@ + 1) % 256]
    /\ UNCHANGED <<Index, Sub, obj, mbx, dest, fault, pc, counter, toggle, asm, srvLeft, emergencySent, result, value, nreq, wrote>>

CoNext == ClientUpload \/ ClientInitResponse \/ ClientSegmentRequest \/ ClientSegmentResponse
          \/ (\E data \in DownloadValues : ClientDownload(data, FALSE)) \/ ClientDownloadResponse
          \/ (fault \notin {"wrong_index", "wrong_sub"} /\ (ServerEmergency \/ ServerRespond \/ ServerDownload)) \/ ServerWrongObject
CoSpec == CoInit /\ [][CoNext]_covars

\* ---------------------------------------------------------------------------
\* C15 on the model

\* the object's bytes, exactly, whatever the transfer type - provided the destination can take them
ReadExact ==
    (pc = "done" /\ fault = "none" /\ wrote = <<>>) =>
        IF Len(obj) > BufCap(dest) /\ Len(obj) > 4 THEN result = "err:TooLong"
        ELSE IF dest.kind = "exact" /\ Len(obj) < dest.n THEN result = "err:Pdu"
        ELSE IF dest.kind = "upto" /\ Len(obj) > dest.n THEN result \in {"err:Pdu", "err:TooLong"}
        ELSE result = "ok" /\ value = (IF dest.kind = "exact" THEN SubSeq(obj, 1, dest.n) ELSE obj)

\* a confirmed write stored exactly the value's bytes
WriteExact ==
    (pc = "done" /\ result = "ok" /\ wrote # <<>>) => obj = wrote

FaultsReported ==
    pc = "done" =>
        /\ (fault = "abort" => result = "err:Aborted")
        /\ (fault = "emergency" => result = "err:Emergency")
        /\ (fault \in {"wrong_index", "wrong_sub"} => result = "err:SdoResponseInvalid")

CounterCycles == counter \in 0..7 /\ (request # <<>> => request[6] \div 16 = counter /\ counter \in 1..7)

NeverBeyondBuffer == Len(asm) <= BufCap(dest)

\* every response is consumed before the next request is written
OneOutstanding == ~(request # <<>> /\ response # <<>> /\ fault # "emergency")

\* the transfer ends (within the exploration bound every behaviour reaches "done" or runs out of requests)
Progress == pc # "done" => (ENABLED CoNext \/ nreq >= MaxRequests)

=============================================================================
