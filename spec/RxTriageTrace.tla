---------------------------- MODULE RxTriageTrace ----------------------------
(***************************************************************************)
(* One trace line = one delivery of a byte sequence to the real             *)
(* PduRx::receive_frame with all slots snapshotted (state, first index      *)
(* word, whole buffer) before and after.                                    *)
(*  - Monitor: C05's clauses evaluated on the snapshots alone.              *)
(*  - Conformance: result and slot states must be what Triage predicts.     *)
(***************************************************************************)
EXTENDS RxTriage, Json, IOUtils

Rec == ndJsonDeserialize(IOEnv.TRACE)

VARIABLES l

ASSUME TLCSet(3, 0)
ASSUME TLCSet(4, 0)

Changed(c) == {s \in 1..Len(c.pre) : c.pre[s] # c.post[s]}

PreSlots(c) == [s \in 1..Len(c.pre) |-> [st |-> c.pre[s].st, fp |-> c.pre[s].fp]]

Stranger(b) == Len(b) >= 14 /\ (~(b[13] = 136 /\ b[14] = 164) \/ SubSeq(b, 7, 12) = Own)

MonitorErrors(c) ==
    LET aw == AwaitingSlots(c.frame, PreSlots(c))
        ch == Changed(c)
    IN (IF "panic" \in DOMAIN c THEN {<<"Panic", c.panic>>} ELSE {})
       \cup (IF ~(ch \subseteq aw) THEN {<<"ForeignSlotChanged", ch, aw>>} ELSE {})
       \cup (IF Cardinality(ch) > 1 THEN {<<"SeveralSlotsChanged", ch>>} ELSE {})
       \cup (IF Stranger(c.frame) /\ (c.res # "Ignored" \/ ch # {}) THEN {<<"StrangerNotIgnored", c.res, ch>>} ELSE {})
       \cup (IF aw = {} /\ (c.res = "Processed" \/ ch # {}) THEN {<<"AcceptedWithoutRequest", c.res, ch>>} ELSE {})

SameRes(got, want) ==
    \/ got = want
    \/ got = "ErrInternal" /\ want = "ErrOversize"

ConformanceErrors(c) ==
    LET r == Triage(c.frame, PreSlots(c), c.cap)
        want == Prep(c.targets)
    IN (IF \E s \in 1..Len(c.pre) : c.pre[s].st # want[s].st \/ c.pre[s].fp # want[s].fp
        THEN {<<"prep", PreSlots(c), want>>} ELSE {})
       \cup (IF ~SameRes(c.res, r.res) THEN {<<"result", c.res, r.res>>} ELSE {})
       \cup (IF \E s \in 1..Len(c.pre) : c.post[s].st # PostState(r, PreSlots(c), s)
             THEN {<<"post-state", [s \in 1..Len(c.post) |-> c.post[s].st], r>>} ELSE {})
       \cup (IF r.res = "Processed" /\ c.res = "Processed"
                /\ SubSeq(c.post[r.slot].buf, 17, 16 + r.len) # SubSeq(c.frame, 17, 16 + r.len)
             THEN {<<"copied-bytes", r.slot>>} ELSE {})

TInit == l = 1

TNext ==
    /\ l <= Len(Rec)
    /\ LET c == Rec[l]
           me == MonitorErrors(c)
           ce == ConformanceErrors(c)
       IN /\ me # {} => /\ PrintT(ToJson([kind |-> "VIOL", case |-> c.id, errs |-> ToString(me)]))
                        /\ TLCSet(3, TLCGet(3) + 1)
          /\ ce # {} => /\ PrintT(ToJson([kind |-> "DIVERGE", case |-> c.id, errs |-> ToString(ce)]))
                        /\ TLCSet(4, TLCGet(4) + 1)
    /\ l' = l + 1

UnusedInit == targets = <<>> /\ frame = <<>> /\ outcome = [res |-> "none", slot |-> 0, len |-> 0] /\ phase = "x"

TraceSpec == (TInit /\ UnusedInit) /\ [][TNext /\ UNCHANGED rtvars]_<<l, rtvars>>

Report ==
    PrintT(ToJson([kind |-> "SUMMARY", cases |-> Len(Rec), violations |-> TLCGet(3), divergences |-> TLCGet(4),
                   consumed |-> TLCGet("stats").diameter - 1]))

=============================================================================
