----------------------------- MODULE DcTopology -----------------------------
(***************************************************************************)
(* Reconstruction of the network tree and of the propagation delays from   *)
(* the port receive times every SubDevice latches (src/dc.rs:              *)
(* assign_parent_relationships, find_subdevice_parent,                     *)
(* configure_subdevice_offsets; src/subdevice/ports.rs).                   *)
(*                                                                         *)
(* The input is what the MainDevice has after latch_dc_times: per device,  *)
(* in frame-processing order, which ports are open, the four 32-bit        *)
(* receive times and whether the device supports DC.  One action per       *)
(* device: find its parent (the previous device, or - if that one is the   *)
(* end of a branch - the nearest earlier junction), take the parent's next *)
(* free port, compute the delay from the parent's and its own loop times   *)
(* with the per-topology formulas.  Ports are kept in EtherCAT processing  *)
(* order 0, 3, 1, 2 (positions 1..4).                                      *)
(*                                                                         *)
(* FreeJunction = TRUE is the repaired parent search (a junction whose     *)
(* downstream ports are all taken is not a candidate); FALSE is the code   *)
(* before: the nearest junction, full or not.                              *)
(***************************************************************************)
EXTENDS Naturals, Integers, Sequences, FiniteSets, TLC

CONSTANTS FreeJunction,
          DcAncestor      \* TRUE (repaired): the delay is measured against the nearest upstream device that has receive
                          \* times; FALSE: against the direct parent, whatever it is

\* configuration of a behaviour (variables that never change)
VARIABLES Devs          \* sequence of [open |-> <<b0, b3, b1, b2>>, times |-> <<t0, t3, t1, t2>>, dc |-> BOOLEAN]
VARIABLES i,            \* next device to process (1-based)
          parent,       \* parent[j]: index of j's parent, 0 = none
          down,         \* down[j][p]: device attached to port position p of device j, 0 = none
          delay,        \* delay[j]: propagation delay assigned to device j
          accum,        \* the running delay accumulator
          status        \* "run" | "done" | "err:Topology"
dtvars == <<Devs, i, parent, down, delay, accum, status>>

N == Len(Devs)
Pos == 1..4

Sat(a, b) == IF a >= b THEN a - b ELSE 0
Active(d) == {p \in Pos : Devs[d].open[p]}
OpenPorts(d) == Cardinality(Active(d))
T(d, p) == Devs[d].times[p]

Topology(d) == CASE OpenPorts(d) = 1 -> "LineEnd" [] OpenPorts(d) = 2 -> "Passthrough"
                 [] OpenPorts(d) = 3 -> "Fork" [] OpenPorts(d) = 4 -> "Cross" [] OTHER -> "None"
IsJunction(d) == Topology(d) \in {"Fork", "Cross"}

SetMin(S) == CHOOSE x \in S : \A y \in S : x <= y
SetMax(S) == CHOOSE x \in S : \A y \in S : x >= y

\* ascending sequence of a set of numbers
SetToSeqAsc(S) == LET RECURSIVE F(_) F(R) == IF R = {} THEN <<>> ELSE <<SetMin(R)>> \o F(R \ {SetMin(R)}) IN F(S)

\* the port that saw the frame first (the first of equals in processing order)
EntryPort(d) == SetMin({p \in Active(d) : \A q \in Active(d) : T(d, p) <= T(d, q)})
LastPort(d) == SetMax(Active(d))

\* time for the frame to traverse all open ports of the device (0 if it has a single port / no time passed)
TotalProp(d) == LET ts == {T(d, p) : p \in Active(d)} IN Sat(SetMax(ts), SetMin(ts))

\* from the entry port up to port position p
PropTimeTo(d, p) ==
    LET ps == {q \in Active(d) : q >= EntryPort(d) /\ q <= p}
        ts == {T(d, q) : q \in ps}
    IN IF ps = {} THEN 0 ELSE Sat(SetMax(ts), SetMin(ts))

\* sum of the deltas between neighbouring open ports before position p
IntermediateTo(d, p) ==
    LET D(a) == IF a < p /\ Devs[d].open[a] /\ Devs[d].open[a + 1] THEN Sat(T(d, a + 1), T(d, a)) ELSE 0
    IN D(1) + D(2) + D(3)

\* downstream ports of d that no device has been attached to yet
FreeDown(d, dn) == {p \in Active(d) : p # EntryPort(d) /\ dn[d][p] = 0}

\* the port the next child of d is attached to: the next open port after the entry port, cyclically, that is not
\* taken (the code's iterator: the open ports, cycled, starting behind position entry + 1 *in the list of open ports*)
NextAssignable(d, dn) ==
    LET act == SetToSeqAsc(Active(d))
        n == Len(act)
        start == EntryPort(d)                              \* .skip(entry index + 1) over the cycled open ports
        cand == [k \in 1..4 |-> act[((start + k - 1) % n) + 1]]
        free == {k \in 1..4 : dn[d][cand[k]] = 0}
    IN IF n = 0 \/ free = {} THEN 0 ELSE cand[SetMin(free)]

PortAssignedTo(d, c, dn) == IF \E p \in Active(d) : dn[d][p] = c THEN SetMin({p \in Active(d) : dn[d][p] = c}) ELSE 0

\* ---- parent search ----------------------------------------------------------------------
Candidates(j, dn) ==
    {q \in 1..(j - 2) : IsJunction(q) /\ (~FreeJunction \/ FreeDown(q, dn) # {})}

FindParent(j, dn) ==            \* 0 = none, -1 = topology error
    IF j = 1 THEN 0
    ELSE IF Topology(j - 1) = "LineEnd"
    THEN IF Candidates(j, dn) = {} THEN -1 ELSE SetMax(Candidates(j, dn))
    ELSE j - 1

\* ---- delay ------------------------------------------------------------------------------
\* the device the delay of j is measured against, and the child of that device through which j is reached
RECURSIVE Anchor(_, _, _)
Anchor(via, p, par) ==
    IF p = 0 THEN [p |-> 0, via |-> via]
    ELSE IF ~DcAncestor \/ Devs[p].dc THEN [p |-> p, via |-> via]
    ELSE Anchor(p, par[p], par)

Delta(via, j, p, dn, acc) ==
    LET pp == PortAssignedTo(p, via, dn)
        parentProp == TotalProp(p)
        thisProp == TotalProp(j)
        parentDelta == Sat(parentProp, thisProp)
        child == IsJunction(p) /\ ~(pp # 0 /\ pp = LastPort(p))
    IN CASE Topology(p) = "Passthrough" -> parentDelta \div 2
         [] Topology(p) = "Fork" -> IF child THEN Sat(PropTimeTo(p, pp), thisProp) \div 2 ELSE parentDelta \div 2
         [] Topology(p) = "Cross" -> IF child THEN Sat(IntermediateTo(p, pp), thisProp) \div 2
                                     ELSE Sat(parentProp, acc)
         [] OTHER -> 0

U32Max == 2147483647        \* (TLC integers are 32-bit signed; the register is 32-bit unsigned: inputs stay below 2^31)
AddSat(a, b) == IF a > U32Max - b THEN U32Max ELSE a + b

DtInitWith(D) ==
    /\ Devs = D /\ i = 1
    /\ parent = [j \in 1..Len(D) |-> 0]
    /\ down = [j \in 1..Len(D) |-> [p \in Pos |-> 0]]
    /\ delay = [j \in 1..Len(D) |-> 0]
    /\ accum = 0 /\ status = "run"

Process ==
    /\ status = "run" /\ i <= N
    /\ IF OpenPorts(i) = 0
       THEN status' = "err:Topology" /\ UNCHANGED <<i, parent, down, delay, accum>>
       ELSE LET p == FindParent(i, down) IN
            IF p = -1 THEN status' = "err:Topology" /\ UNCHANGED <<i, parent, down, delay, accum>>
            ELSE LET port == IF p = 0 THEN 0 ELSE NextAssignable(p, down)
                     dn == IF p = 0 \/ port = 0 THEN down ELSE [down EXCEPT ![p][port] = i]
                 IN IF p # 0 /\ port = 0 THEN status' = "err:Topology" /\ UNCHANGED <<i, parent, down, delay, accum>>
                    ELSE /\ parent' = [parent EXCEPT ![i] = p]
                         /\ down' = dn
                         /\ LET an == Anchor(i, p, [parent EXCEPT ![i] = p]) IN
                            IF Devs[i].dc /\ an.p # 0
                            THEN LET a == AddSat(accum, Delta(an.via, i, an.p, dn, accum)) IN accum' = a /\ delay' = [delay EXCEPT ![i] = a]
                            ELSE IF Devs[i].dc /\ DcAncestor
                            THEN delay' = [delay EXCEPT ![i] = accum] /\ UNCHANGED accum     \* nothing upstream to measure against
                            ELSE UNCHANGED <<accum, delay>>
                         /\ i' = i + 1
                         /\ status' = IF i = N THEN "done" ELSE "run"
    /\ UNCHANGED Devs

DtNext == Process

=============================================================================
