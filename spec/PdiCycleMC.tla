------------------------------ MODULE PdiCycleMC ------------------------------
(* Model-checking wrapper of PdiCycle: prints every finished configuration. *)
EXTENDS PdiCycle, Json

Emit == pc = "done" => PrintT(ToJson([cap |-> cap, image |-> image, inLen |-> inLen, ndev |-> ndev,
                                      variant |-> variant, nframes |-> Len(frames)]))

=============================================================================
