----------------------------- MODULE SiiWriteTrace -----------------------------
(***************************************************************************)
(* C14 on executions: each trace line is one set_alias_address (plus        *)
(* generic EEPROM writes) on a simulated device with scripted SII           *)
(* behaviour; it carries the first 128 bytes of the EEPROM before and after *)
(* and every byte that changed anywhere.  The checksum is recomputed here   *)
(* (SiiWrite.Crc8) from the logged before-image and the alias.              *)
(***************************************************************************)
EXTENDS SiiWrite, Json, IOUtils

Rec == ndJsonDeserialize(IOEnv.TRACE)

VARIABLE l
ASSUME TLCSet(3, 0)

ChangedOffsets(r) == {r.changed[i][1] : i \in 1..Len(r.changed)}

\* offsets the extra writes of the case may touch
ExtraOffsets(c) ==
    IF "extra_writes" \notin DOMAIN c THEN {}
    ELSE UNION { {2 * c.extra_writes[i].word + j : j \in 0..(Len(c.extra_writes[i].data) + (Len(c.extra_writes[i].data) % 2) - 1)}
                 : i \in 1..Len(c.extra_writes) }

Errors(r) ==
    LET c == r.case
        k == IF "write_errors" \in DOMAIN c THEN c.write_errors ELSE 0
    IN (IF r.result \in {"panic", "hang", "budget"} THEN {<<"NotTotal", r.result>>} ELSE {})
       \cup (IF r.result = "ok" /\ "eeprom_before" \in DOMAIN r
             THEN LET before == SubSeq(r.eeprom_before, 1, 16)
                      want == AliasHeader(before, c.alias)
                      after == SubSeq(r.eeprom_after, 1, 16)
                  IN (IF after # want THEN {<<"HeaderAfterAliasWrite", after, want>>} ELSE {})
                     \cup (IF ~(ChangedOffsets(r) \subseteq ({8, 9, 14, 15} \cup ExtraOffsets(c)))
                           THEN {<<"OtherWordsChanged", ChangedOffsets(r)>>} ELSE {})
                     \cup (IF r.alias_reported # c.alias THEN {<<"ReportedAliasWrong", r.alias_reported>>} ELSE {})
                     \cup (IF r.alias_in_eeprom.result = "ok" /\ r.alias_in_eeprom.value # c.alias
                           THEN {<<"AliasNotStored", r.alias_in_eeprom.value>>} ELSE {})
             ELSE {})
       \* whatever the outcome, the alias reported afterwards is one the device holds or held: never one that was not stored
       \cup (IF r.result \notin {"panic", "hang", "budget"} /\ "eeprom_before" \in DOMAIN r /\ "alias_reported" \in DOMAIN r
                /\ r.alias_reported \notin {r.eeprom_before[9] + 256 * r.eeprom_before[10], r.eeprom_after[9] + 256 * r.eeprom_after[10]}
             THEN {<<"ReportedAliasNeverStored", r.alias_reported, r.eeprom_after[9] + 256 * r.eeprom_after[10]>>} ELSE {})
       \cup (IF r.result = "ok" /\ k > RetryBound THEN {<<"GaveUpSilently", k>>} ELSE {})
       \cup (IF r.result = "ok" /\ "extra_writes" \in DOMAIN c /\ "extra_writes" \in DOMAIN r /\ k = 0
             THEN UNION { LET w == c.extra_writes[i]
                              base == 2 * w.word
                              padded == w.data \o (IF Len(w.data) % 2 = 1 THEN <<0>> ELSE <<>>)
                          IN (IF r.extra_writes[i].result # "ok" THEN {<<"GenericWriteFailed", w.word, Len(w.data), r.extra_writes[i].result>>} ELSE
                              {<<"GenericWriteStoredWrong", r.changed[j]>> : j \in {j \in 1..Len(r.changed) :
                                   r.changed[j][1] >= base /\ r.changed[j][1] < base + Len(padded)
                                   /\ r.changed[j][3] # padded[r.changed[j][1] - base + 1]}})
                          : i \in 1..Len(c.extra_writes) }
             ELSE {})
       \cup (IF r.result # "ok" /\ r.result \notin {"panic", "hang", "budget"} /\ k <= RetryBound
                /\ ("busy_forever" \notin DOMAIN c \/ ~c.busy_forever)
             THEN {<<"SpuriousFailure", r.result, k>>} ELSE {})

\* EepromRange::write with arbitrary payloads (through the hook, over an in-memory device)
RangeErrors(r) ==
    LET c == r.case
        want == RangeWriteWords(c.window[1], c.window[2], c.payload)
        got == [i \in 1..Len(r.writes) |-> <<r.writes[i][1], r.writes[i][2], r.writes[i][3]>>]
    IN IF r.result \in {"panic", "hang", "budget", "pending"} THEN {<<"NotTotal", r.result>>}
       ELSE IF r.result # "ok" THEN {<<"RangeWriteFailed", r.result>>}
       ELSE (IF got # want THEN {<<"RangeWriteWords", ToString(got), ToString(want)>>} ELSE {})
            \cup (IF r.written # RangeWriteCount(c.window[1], c.window[2], c.payload)
                  THEN {<<"RangeWriteCount", r.written, RangeWriteCount(c.window[1], c.window[2], c.payload)>>} ELSE {})

TInit == l = 1
TNext ==
    /\ l <= Len(Rec)
    /\ LET e == IF Rec[l].case.op = "alias" THEN Errors(Rec[l])
                ELSE IF Rec[l].case.op = "rangewrite" THEN RangeErrors(Rec[l]) ELSE {} IN
       e # {} => /\ PrintT(ToJson([kind |-> "VIOL", case |-> Rec[l].case.id, errs |-> ToString(e)]))
                 /\ TLCSet(3, TLCGet(3) + 1)
    /\ l' = l + 1
TraceSpec == (TInit /\ SwInit) /\ [][TNext /\ UNCHANGED swvars]_<<l, swvars>>

Report == PrintT(ToJson([kind |-> "SUMMARY", cases |-> Len(Rec), violations |-> TLCGet(3),
                         judged |-> TLCGet("stats").diameter - 1]))

=============================================================================
