-------------------------- MODULE MailboxPollTrace --------------------------
(***************************************************************************)
(* The datagrams the MainDevice sent to the device during one SDO call      *)
(* (command, register / memory address, length, working counter), replayed  *)
(* against MailboxPoll: every datagram must be the MainDevice action the     *)
(* model allows next (status poll, drain, write, fetch), with the device's   *)
(* own steps (consume the request, load a message) silent in between.  A     *)
(* call with several requests (segments, array helpers) is a sequence of     *)
(* handshakes.  One behaviour per trace line; the longest explained prefix   *)
(* is kept in a TLC register.                                                *)
(* Monitor (on the log alone): one write per request, never more than ten    *)
(* drains in a row, every datagram acknowledged.                             *)
(***************************************************************************)
EXTENDS MailboxPoll, Json, IOUtils, Integers

Rec == ndJsonDeserialize(IOEnv.TRACE)

VARIABLES ri, k
mtvars == <<mpvars, ri, k>>

ASSUME TLCSet(3, 0)
ASSUME TLCSet(4, 0)
ASSUME TLCSet(5, 0)
ASSUME TLCSet(6, [i \in 1..Len(Rec) |-> 0])

Wire(r) == r.wire
FPRD == 4
FPWR == 5

Kind(r, e) ==
    IF e[1] = FPRD /\ e[2] = r.out_status THEN "out_status"
    ELSE IF e[1] = FPRD /\ e[2] = r.in_status THEN "in_status"
    ELSE IF e[1] = FPWR /\ e[2] = r.mbx_in THEN "write"
    ELSE IF e[1] = FPRD /\ e[2] = r.mbx_out THEN "fetch"
    ELSE "other"

TInit == \E i \in 1..Len(Rec) : ri = i /\ k = 1 /\ MpInitWith(Rec[i].stale)

Ev == Kind(Rec[ri], Wire(Rec[ri])[k])

Step ==
    /\ k <= Len(Wire(Rec[ri]))
    /\ \/ (Ev = "out_status" /\ (DrainCheck \/ Poll))
       \/ (Ev = "fetch" /\ (DrainRead \/ Read))
       \/ (Ev = "in_status" /\ InCheck)
       \/ (Ev = "write" /\ Write)
    /\ k' = k + 1 /\ UNCHANGED ri

Silent == Device /\ UNCHANGED <<ri, k>>

\* the next request of the same call
Again ==
    /\ mpc = "done" /\ k <= Len(Wire(Rec[ri]))
    /\ mpc' = "drain_check" /\ iter' = 0 /\ polls' = 0 /\ got' = "" /\ wrote' = 0 /\ drained' = 0
    /\ UNCHANGED <<outBox, queue, inFull, ri, k>>

TNext == Step \/ Silent \/ Again
TraceSpec == TInit /\ [][TNext]_mtvars

Track == TLCSet(6, [TLCGet(6) EXCEPT ![ri] = IF k > @ THEN k ELSE @])

\* longest run of consecutive drains (fetches that are not preceded by a write since the last in_status)
CountKind(r, kd) == Cardinality({j \in 1..Len(Wire(r)) : Kind(r, Wire(r)[j]) = kd})

MonitorErrors(r) ==
    (IF r.result \in {"panic", "hang", "budget"} THEN {} ELSE
     (IF CountKind(r, "write") # r.requests THEN {<<"WritesPerRequest", CountKind(r, "write"), r.requests>>} ELSE {})
     \cup (IF \E j \in 1..Len(Wire(r)) : Kind(r, Wire(r)[j]) = "other" THEN {<<"UnexpectedDatagram">>} ELSE {})
     \cup (IF CountKind(r, "fetch") > r.requests + 10 * r.requests THEN {<<"TooManyFetches", CountKind(r, "fetch")>>} ELSE {}))

Judge ==
    k = 1 /\ mpc = "drain_check" /\ wrote = 0 /\ drained = 0 /\ iter = 0 /\ polls = 0 =>
        LET r == Rec[ri]  me == MonitorErrors(r) IN
        /\ TLCSet(5, TLCGet(5) + 1)
        /\ (me # {} => /\ PrintT(ToJson([kind |-> "VIOL", case |-> r.case.id, errs |-> ToString(me)]))
                       /\ TLCSet(3, TLCGet(3) + 1))

Report ==
    LET reached == TLCGet(6)
        bad == {i \in 1..Len(Rec) : reached[i] # Len(Wire(Rec[i])) + 1}
    IN /\ \A i \in bad :
            PrintT(ToJson([kind |-> "DIVERGE", case |-> Rec[i].case.id,
                           errs |-> ToString(<<"datagram", reached[i], Wire(Rec[i])[reached[i]]>>)]))
       /\ PrintT(ToJson([kind |-> "SUMMARY", cases |-> Len(Rec), judged |-> TLCGet(5), violations |-> TLCGet(3),
                         divergences |-> Cardinality(bad)]))
=============================================================================
