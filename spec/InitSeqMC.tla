------------------------------ MODULE InitSeqMC ------------------------------
(* Model-checking wrapper of InitSeq: prints every finished run (network, configuration, outcome). *)
EXTENDS InitSeq, Json

Emit == pc = "done" => PrintT(ToJson([net |-> net, cfg |-> cfg, result |-> result]))

=============================================================================
