----------------------------- MODULE FrameBuildMC -----------------------------
(* Model-checking wrapper of FrameBuild: every finished program is printed as one JSON line so
   that the harness can execute it on the real frame builder. *)
EXTENDS FrameBuild, Json

Emit == done => PrintT(ToJson([cap |-> cap, ops |-> prog, results |-> results]))

=============================================================================
