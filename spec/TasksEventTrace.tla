-------------------------- MODULE TasksEventTrace --------------------------
(***************************************************************************)
(* Frame-level conformance of C20 runs with Tasks.tla.  While the tasks of  *)
(* a case run on the real MainDevice, ethercrab's verification hooks report *)
(* every change of a frame slot's life cycle together with who made it (the *)
(* task being polled, the transmit drain, the receive side): a task claims  *)
(* a free slot, the frame gets its first datagram index, the transmit side  *)
(* takes it, a response with some index is handed to the receive side,      *)
(* which accepts it into a slot, the task releases the slot.                *)
(* Each event is one step of Tasks.tla with the logged slot and index:      *)
(* BeginAt, Deliver (the slot the model routes the index to must be the     *)
(* slot the code chose), Complete, NoSlotFor (after the code has tried all  *)
(* slots twice), CompleteHold / DropHeld (a response kept claimed while the  *)
(* task goes on: inferred when the task claims again before it releases),   *)
(* Abandon (a slot released before its response is there), a response the   *)
(* receive side accepts into no slot - and the model's invariants           *)
(* OwnResponses, DistinctInFlight, NoSpuriousFailure and NoResponseLost are *)
(* evaluated on every state of the replayed run.                            *)
(***************************************************************************)
EXTENDS Tasks, Json, IOUtils

Rec == ndJsonDeserialize(IOEnv.TRACE)

VARIABLES ri, k, pend, rxIdx, fails
tevars == <<tkvars, ri, k, pend, rxIdx, fails>>

ASSUME TLCSet(3, 0)
ASSUME TLCSet(4, 0)
ASSUME TLCSet(5, 0)
ASSUME TLCSet(6, [i \in 1..Len(Rec) |-> 0])

Ev(r) == r.events
TInit ==
    \E i \in 1..Len(Rec) :
        /\ ri = i /\ k = 1 /\ TkInit
        /\ pend = [t \in Task |-> -1] /\ rxIdx = -1 /\ fails = [t \in Task |-> 0]

E == Ev(Rec[ri])[k]
T == E.task + 1            \* tasks are numbered from 1 in the model
F == E.slot + 1

Stutter == UNCHANGED tkvars

NextIsDeliver == k < Len(Ev(Rec[ri])) /\ Ev(Rec[ri])[k + 1].ev = "deliver"

TNext ==
    /\ k <= Len(Ev(Rec[ri]))
    /\ \/ \* (silent) a task that goes on to its next operation while its slot still holds the response it was given has
          \* taken that response and keeps it claimed
          /\ E.ev \in {"claim", "claimfail"} /\ pc[T] = "wait" /\ CompleteHold(T)
          /\ UNCHANGED <<k, pend, rxIdx, fails>>
       \/ /\ k' = k + 1
          /\ \/ /\ E.ev = "claim" /\ ~slot[F].busy /\ pc[T] = "idle"
                /\ pend' = [pend EXCEPT ![T] = F] /\ fails' = [fails EXCEPT ![T] = 0] /\ Stutter /\ UNCHANGED rxIdx
             \/ /\ E.ev = "index" /\ pend[T] = F
                /\ BeginAt(T, F, E.idx)
                /\ pend' = [pend EXCEPT ![T] = -1] /\ UNCHANGED <<rxIdx, fails>>
             \/ /\ E.ev = "index" /\ pend[T] # F /\ slot[F].busy /\ slot[F].owner = T       \* further datagrams of the same frame
                /\ Stutter /\ UNCHANGED <<pend, rxIdx, fails>>
             \/ /\ E.ev = "send" /\ slot[F].busy
                /\ Stutter /\ UNCHANGED <<pend, rxIdx, fails>>
             \/ /\ E.ev = "rx" /\ NextIsDeliver
                /\ rxIdx' = E.idx /\ Stutter /\ UNCHANGED <<pend, fails>>
             \/ \* a response the receive side did not accept into any slot: it is gone; if the model knows a slot that
                \* awaits it, it was lost
                /\ E.ev = "rx" /\ ~NextIsDeliver
                /\ \E fr \in wire :
                      /\ fr.idx = E.idx
                      /\ wire' = wire \ {fr}
                      /\ lost' = IF Route(E.idx) # 0 THEN lost \cup {fr.tag} ELSE lost
                /\ UNCHANGED <<slot, nextIdx, pc, done, full, pend, rxIdx, fails>>
             \/ /\ E.ev = "deliver"
                /\ \E fr \in wire : fr.idx = rxIdx /\ Deliver(fr)
                /\ slot'[F].resp # <<>> /\ slot[F].resp = <<>>        \* the model routed it to the slot the code chose
                /\ rxIdx' = -1 /\ UNCHANGED <<pend, fails>>
             \/ /\ E.ev = "release" /\ E.task >= 0 /\ slot[F].busy /\ slot[F].owner = T /\ ~slot[F].held /\ slot[F].resp # <<>>
                /\ Complete(T) /\ ~slot'[F].busy
                /\ UNCHANGED <<pend, rxIdx, fails>>
             \/ /\ E.ev = "release" /\ E.task >= 0 /\ DropHeld(T, F)
                /\ UNCHANGED <<pend, rxIdx, fails>>
             \/ \* the operation is given up before its response is there
                /\ E.ev = "release" /\ E.task >= 0 /\ slot[F].busy /\ slot[F].owner = T /\ ~slot[F].held /\ slot[F].resp = <<>>
                /\ Abandon(T) /\ ~slot'[F].busy
                /\ UNCHANGED <<pend, rxIdx, fails>>
             \/ /\ E.ev = "claimfail" /\ slot[F].busy /\ pc[T] = "idle"
                /\ IF fails[T] + 1 >= 2 * Slots
                   THEN NoSlotFor(T) /\ fails' = [fails EXCEPT ![T] = 0]
                   ELSE Stutter /\ fails' = [fails EXCEPT ![T] = @ + 1]
                /\ UNCHANGED <<pend, rxIdx>>
    /\ UNCHANGED ri
TraceSpec == TInit /\ [][TNext]_tevars

Track == TLCSet(6, [TLCGet(6) EXCEPT ![ri] = IF k > @ THEN k ELSE @])

\* invariants of Tasks.tla on the replayed run
Judge ==
    LET bad == (IF ~OwnResponses THEN {<<"ForeignResponse", done>>} ELSE {})
               \cup (IF ~DistinctInFlight THEN {<<"SameIndexInFlightTwice", [f \in Slot |-> slot[f].idx]>>} ELSE {})
               \cup (IF ~NoSpuriousFailure THEN {<<"SlotFailureWithFreeSlot", full>>} ELSE {})
               \cup (IF ~NoResponseLost THEN {<<"ResponseLost", lost>>} ELSE {})
    IN /\ (k = 1 => TLCSet(5, TLCGet(5) + 1))
       /\ (bad # {} => /\ PrintT(ToJson([kind |-> "VIOL", case |-> Rec[ri].case.id, errs |-> ToString(bad)]))
                       /\ TLCSet(3, TLCGet(3) + 1))

Report ==
    LET reached == TLCGet(6)
        badc == {i \in 1..Len(Rec) : reached[i] # Len(Ev(Rec[i])) + 1}
    IN /\ \A i \in badc :
            PrintT(ToJson([kind |-> "DIVERGE", case |-> Rec[i].case.id,
                           errs |-> ToString(<<"event", reached[i], Ev(Rec[i])[reached[i]]>>)]))
       /\ PrintT(ToJson([kind |-> "SUMMARY", cases |-> Len(Rec), judged |-> TLCGet(5), violations |-> TLCGet(3),
                         divergences |-> Cardinality(badc)]))
=============================================================================
