---------------------------- MODULE DcTopologyMC ----------------------------
(***************************************************************************)
(* Model-checking wrapper of DcTopology: every tree of up to MaxN devices  *)
(* wired through port 0 (children on ports 3, 1, 2 in that order, given as *)
(* a depth-first parent vector), link delays and forwarding delays from    *)
(* small sets, every mix of DC / non-DC devices.  The port receive times   *)
(* are produced by a frame walking the tree (symmetric links; a device     *)
(* adds its forwarding delay before every hop).                            *)
(***************************************************************************)
EXTENDS DcTopology

CONSTANTS MaxN, Links, Fwds, AllDc

VARIABLES tp, link, fwd          \* ground truth: true parent (0 = none), delay of the link to the parent, forwarding delay
mcvars == <<dtvars, tp, link, fwd>>

\* tp is a depth-first order: the parent of j is on the path from the root to j - 1, and nobody has more than 3 children
RECURSIVE OnPath(_, _, _)
OnPath(t, a, b) == IF b = 0 THEN FALSE ELSE IF a = b THEN TRUE ELSE OnPath(t, a, t[b])
ValidTree(t) ==
    /\ t[1] = 0
    /\ \A j \in 2..Len(t) : t[j] \in 1..(j - 1)
    /\ \A j \in 2..Len(t) : OnPath(t, t[j], j - 1)
    /\ \A q \in 1..Len(t) : Cardinality({j \in 2..Len(t) : t[j] = q}) <= 3

Kids(t, d) == SetToSeqAsc({j \in 1..Len(t) : t[j] = d})

\* the frame's walk: [exit |-> time it leaves d through port 0, tm |-> port receive times so far]
RECURSIVE Walk(_, _, _, _, _, _), WalkKids(_, _, _, _, _, _, _, _)
WalkKids(t, l, f, d, ks, n, now, tm) ==
    IF n > Len(ks) THEN [exit |-> now, tm |-> tm]
    ELSE LET r == Walk(t, l, f, ks[n], now + l[ks[n]], tm)
             back == r.exit + l[ks[n]]
             tm2 == [r.tm EXCEPT ![d][n + 1] = back]
         IN WalkKids(t, l, f, d, ks, n + 1, back + f[d], tm2)
Walk(t, l, f, d, tin, tm) ==
    WalkKids(t, l, f, d, Kids(t, d), 1, tin + f[d], [tm EXCEPT ![d] = [p \in Pos |-> tin]])

Physical(t, l, f, dcs) ==
    LET n == Len(t)
        r == Walk(t, l, f, 1, 100, [d \in 1..n |-> [p \in Pos |-> 0]])
    IN [d \in 1..n |-> [open |-> [p \in Pos |-> p = 1 \/ p - 1 <= Len(Kids(t, d))],
                        times |-> IF dcs[d] THEN r.tm[d] ELSE [p \in Pos |-> 0],
                        dc |-> dcs[d]]]

\* outbound arrival time at port 0 of each device
Arrival(t, l, f, d) == LET r == Walk(t, l, f, 1, 100, [x \in 1..Len(t) |-> [p \in Pos |-> 0]]) IN r.tm[d][1]

McInit ==
    \E n \in 1..MaxN :
      \E t \in [1..n -> 0..(n - 1)], l \in [1..n -> Links], f \in [1..n -> Fwds], dcs \in [1..n -> BOOLEAN] :
        /\ ValidTree(t)
        /\ (AllDc => \A d \in 1..n : dcs[d])
        /\ tp = t /\ link = l /\ fwd = f
        /\ DtInitWith(Physical(t, l, f, dcs))

McNext == DtNext /\ UNCHANGED <<tp, link, fwd>>
McSpec == McInit /\ [][McNext]_mcvars

\* ---------------------------------------------------------------------------
\* C17 on the model

\* a valid tree is accepted
Accepted == status # "err:Topology"

\* the delay of each device is derived from its true upstream neighbour
ParentRight == status = "done" => \A j \in 1..N : parent[j] = tp[j]

\* the programmed delay never decreases in frame-processing order
Monotone == \A a, b \in 1..N : (a < b /\ b < i /\ Devs[a].dc /\ Devs[b].dc) => delay[a] <= delay[b]

\* pure chains of DC devices with equal forwarding delays: the true one-way delay from the first device
IsChain == \A j \in 2..N : tp[j] = j - 1
ChainExact ==
    (status = "done" /\ IsChain /\ (\A d \in 1..N : Devs[d].dc /\ fwd[d] = fwd[1])) =>
        \A j \in 1..N : delay[j] = Arrival(tp, link, fwd, j) - Arrival(tp, link, fwd, 1)

\* ... also with devices without DC in the chain: they are part of the cable between their neighbours
FirstDc == IF \E d \in 1..N : Devs[d].dc THEN SetMin({d \in 1..N : Devs[d].dc}) ELSE 0
ChainExactMixed ==
    (status = "done" /\ IsChain /\ FirstDc # 0 /\ (\A d \in 1..N : fwd[d] = fwd[1])) =>
        \A j \in {j \in 1..N : Devs[j].dc} : delay[j] = Arrival(tp, link, fwd, j) - Arrival(tp, link, fwd, FirstDc)

=============================================================================
