---------------------------- MODULE PdiLayoutMC ----------------------------
(* Model-checking wrapper of PdiLayout: every network of up to MaxDevs devices drawn from a small    *)
(* family (CoE and EEPROM configured, one or two sync managers per direction, lengths 0..2, back to  *)
(* back or spaced physical areas, one FMMU per direction or per sync manager, with and without       *)
(* FMMU_EX), 1..MaxGroups groups, small image capacities so that PdiTooLong is reached.              *)
EXTENDS PdiLayout

CONSTANTS MaxDevs, MaxGroups, Caps, Lens

\* physical areas: sync manager k of a device at 4352 + 128 * k (spaced) or packed behind each other
Sm(k, start, len) == [sm |-> k, start |-> start, len |-> len]

CoeDevs ==
    { [coe |-> TRUE,
       outs |-> IF two THEN <<Sm(2, 4352, a), Sm(3, IF packed THEN 4352 + a ELSE 4480, b)>> ELSE <<Sm(2, 4352, a)>>,
       ins |-> IF two THEN <<Sm(4, 4608, c), Sm(5, IF packed THEN 4608 + c ELSE 4736, a)>> ELSE <<Sm(3, 4480, c)>>,
       usage |-> IF perSm /\ two THEN <<1, 1, 2, 2, 3>> ELSE <<1, 2, 3>>,
       fmmuEx |-> <<>>] :
      two \in BOOLEAN, packed \in BOOLEAN, perSm \in BOOLEAN, a \in Lens, b \in Lens, c \in Lens }

\* more input sync managers than input FMMUs: the third extends the second FMMU (areas back to back)
CoeDevs3 ==
    { [coe |-> TRUE,
       outs |-> <<Sm(2, 4352, a)>>,
       ins |-> <<Sm(3, 4480, c), Sm(4, 4480 + c, a), Sm(5, 4480 + c + a, b)>>,
       usage |-> <<1, 2, 2, 3>>,
       fmmuEx |-> <<>>] :
      a \in Lens, b \in Lens, c \in Lens }

DioDevs ==
    { [coe |-> FALSE,
       outs |-> IF two THEN <<Sm(0, 4352, a), Sm(1, 4480, b)>> ELSE <<Sm(2, 4352, a)>>,
       ins |-> IF two THEN <<Sm(2, 4608, c), Sm(3, 4736, a)>> ELSE <<Sm(0, 0, 0), Sm(1, 0, 0), Sm(3, 4480, c)>>,
       usage |-> IF two THEN <<1, 1, 2, 2>> ELSE <<0, 0, 1, 2>>,
       fmmuEx |-> IF ex THEN (IF two THEN <<0, 1, 2, 3>> ELSE <<2, 3>>) ELSE <<>>] :
      two \in BOOLEAN, ex \in BOOLEAN, a \in Lens, b \in Lens, c \in Lens }

McInit ==
    \E n \in 1..MaxDevs, g \in 1..MaxGroups, m \in Caps :
        \E D \in [1..n -> CoeDevs \cup CoeDevs3 \cup DioDevs] :
            PlInitWith(D, g, m, [k \in 1..g |-> (k - 1) * m])

McSpec == McInit /\ [][PlNext]_plvars
=============================================================================
