--------------------------- MODULE DcTopologyTrace ---------------------------
(***************************************************************************)
(* C17 on executions.  One trace line = one simulated tree (or a set of    *)
(* devices reporting arbitrary DL status and port times) initialised by    *)
(* the real MainDevice.  Recorded per device: DL status, the four latched  *)
(* port times, the receive time register, the offset and delay registers   *)
(* after init, DC capability; from the simulator's own bookkeeping the     *)
(* true parent, the true outbound arrival time and whether the device sits *)
(* before the first DC device.                                             *)
(*                                                                         *)
(* The DcTopology model runs on the latched data.  Monitor: an orderly end *)
(* (error, not panic, for reports no tree can produce); for trees: the     *)
(* parent the delay is derived from is the true upstream neighbour, the    *)
(* programmed delay is the one derived from it, never decreases in         *)
(* processing order, equals the true one-way delay on chains of DC devices *)
(* with equal forwarding delays; offset register = master time - latched   *)
(* receive time (64-bit, limb arithmetic); the first DC device is the      *)
(* reference.                                                              *)
(***************************************************************************)
EXTENDS DcTopology, Json, IOUtils

Rec == ndJsonDeserialize(IOEnv.TRACE)

VARIABLE ri
ttvars == <<dtvars, ri>>

ASSUME TLCSet(3, 0)
ASSUME TLCSet(4, 0)
ASSUME TLCSet(5, 0)

TInit == \E k \in 1..Len(Rec) : ri = k /\ DtInitWith(IF Rec[k].modelled THEN Rec[k].devs ELSE <<>>)
TNext == DtNext /\ UNCHANGED ri
TraceSpec == TInit /\ [][TNext]_ttvars

\* 64-bit subtraction on 16-bit limbs (little endian sequences of 4), modulo 2^64
SubLimbs(a, b) ==
    LET D[k \in 0..4] == IF k = 0 THEN [v |-> <<>>, borrow |-> 0]
                         ELSE LET x == a[k] - b[k] - D[k - 1].borrow IN
                              [v |-> Append(D[k - 1].v, IF x < 0 THEN x + 65536 ELSE x), borrow |-> IF x < 0 THEN 1 ELSE 0]
    IN D[4].v

DcIdx(r) == {j \in 1..Len(r.obs) : r.obs[j].dc}

MonitorErrors(r) ==
    (IF r.result \in {"panic", "hang", "budget"} THEN {<<"NotTotal", r.result, r.detail>>} ELSE {})
    \cup (IF r.tree /\ r.result # "ok" /\ r.result \notin {"panic", "hang", "budget"} THEN {<<"TreeRejected", r.result>>} ELSE {})
    \cup (IF r.tree /\ r.result = "ok" /\ r.modelled
          THEN (IF status = "done" /\ \E j \in 1..N : parent[j] # r.obs[j].true_parent
                THEN {<<"ParentWrong", [j \in 1..N |-> parent[j]], [j \in 1..N |-> r.obs[j].true_parent]>>} ELSE {})
               \cup (IF status = "done" /\ \E j \in DcIdx(r) : r.obs[j].delay # delay[j]
                     THEN {<<"DelayNotFromParent", [j \in 1..N |-> r.obs[j].delay], delay>>} ELSE {})
               \cup (IF status # "done" THEN {<<"ModelRejectsTree", status>>} ELSE {})
          ELSE {})
    \cup (IF r.tree /\ r.result = "ok"
          THEN (IF \E a, b \in DcIdx(r) : a < b /\ r.obs[a].delay > r.obs[b].delay
                THEN {<<"DelayDecreases", [j \in 1..Len(r.obs) |-> r.obs[j].delay]>>} ELSE {})
               \cup {<<"ChainDelayWrong", j, r.obs[j].delay, r.obs[j].true_delay>> :
                       j \in {j \in DcIdx(r) : r.chain /\ r.equal_fwd /\ ~r.obs[j].before_ref
                                               /\ r.obs[j].delay # r.obs[j].true_delay}}
               \cup {<<"OffsetWrong", j, r.obs[j].offset, SubLimbs(r.now, r.obs[j].rx_time)>> :
                       j \in {j \in DcIdx(r) : LET e == SubLimbs(r.now, r.obs[j].rx_time) IN
                                               IF r.obs[j].dc64 THEN r.obs[j].offset # e
                                               ELSE SubSeq(r.obs[j].offset, 1, 2) # SubSeq(e, 1, 2)}}
               \cup (IF DcIdx(r) # {} /\ r.dc_ref # r.obs[CHOOSE j \in DcIdx(r) : \A q \in DcIdx(r) : j <= q].station
                     THEN {<<"ReferenceNotFirstDc", r.dc_ref>>} ELSE {})
          ELSE {})

\* conformance for reports no tree produces: the model's verdict (error or not) is the code's
Divergences(r) ==
    IF ~r.modelled \/ r.tree \/ r.result \in {"panic", "hang", "budget"} THEN {}
    ELSE (IF (status = "err:Topology") # (r.result = "err:Topology") THEN {<<"verdict", status, r.result>>} ELSE {})
         \cup (IF status = "done" /\ r.result = "ok" /\ \E j \in DcIdx(r) : r.obs[j].delay # delay[j]
               THEN {<<"delay", [j \in 1..N |-> r.obs[j].delay], delay>>} ELSE {})

Judge ==
    status # "run" \/ N = 0 =>
        LET r == Rec[ri]  me == MonitorErrors(r)  de == Divergences(r) IN
        /\ TLCSet(5, TLCGet(5) + 1)
        /\ (me # {} => /\ PrintT(ToJson([kind |-> "VIOL", case |-> r.case.id, errs |-> ToString(me)]))
                       /\ TLCSet(3, TLCGet(3) + 1))
        /\ (de # {} => /\ PrintT(ToJson([kind |-> "DIVERGE", case |-> r.case.id, errs |-> ToString(de)]))
                       /\ TLCSet(4, TLCGet(4) + 1))

Report ==
    PrintT(ToJson([kind |-> "SUMMARY", cases |-> Len(Rec), judged |-> TLCGet(5), violations |-> TLCGet(3),
                   divergences |-> TLCGet(4)]))
=============================================================================
