---------------------------- MODULE SdoInfoTrace ----------------------------
(***************************************************************************)
(* SDO information service "get object dictionary list" against a          *)
(* conforming server (ETG1000.6 5.6.3.3): the list is the list type (two    *)
(* bytes, in the first fragment only) followed by the indices; a response   *)
(* that does not fit the mailbox comes in fragments, each with its own CoE  *)
(* and SDO information header (8 bytes behind the 6 byte mailbox header)    *)
(* and a count of the fragments still to come.                              *)
(*                                                                         *)
(* This is outside the twenty listed properties (C16 asks for an orderly    *)
(* end, not for the content): what the call returns is compared with the    *)
(* reassembled list as a conformance matter only (DIVERGE, never VIOL).     *)
(***************************************************************************)
EXTENDS Naturals, Integers, Sequences, FiniteSets, TLC, Json, IOUtils

Rec == ndJsonDeserialize(IOEnv.TRACE)

VARIABLE l
ASSUME TLCSet(3, 0)
ASSUME TLCSet(4, 0)

\* the data of one fragment: what follows the mailbox header (6), the CoE header (2) and the SDO information header (4),
\* as long as the mailbox header's length field says
FragData(m) ==
    LET len == m[1] + 256 * m[2]
        n == IF len >= 6 THEN len - 6 ELSE 0
    IN SubSeq(m, 13, 12 + (IF 12 + n <= Len(m) THEN n ELSE Len(m) - 12))

Flat(ss) == LET F[i \in 0..Len(ss)] == IF i = 0 THEN <<>> ELSE F[i - 1] \o ss[i] IN F[Len(ss)]

Replies(r) == SelectSeq(r.mailbox_log, LAMBDA m : m.dir = "out")

\* all fragments one after the other, without the list type in front
Reassembled(r) ==
    LET fs == Replies(r)
        all == Flat([i \in 1..Len(fs) |-> FragData(fs[i].bytes)])
    IN IF Len(all) >= 2 THEN SubSeq(all, 3, Len(all)) ELSE <<>>

\* the indices the server holds, little endian
Held(r) == Flat([i \in 1..Len(r.od_indices) |-> <<r.od_indices[i] % 256, r.od_indices[i] \div 256>>])

Diverge(r) ==
    IF r.result # "ok" THEN {<<"ListFailed", r.result>>}
    ELSE (IF Reassembled(r) # Held(r) THEN {<<"ServerListNotTheDictionary", Len(Reassembled(r)) \div 2, Len(r.od_indices)>>} ELSE {})
         \cup (IF r.value # Reassembled(r)
               THEN {<<"ListNotTheFragments", Len(r.value) \div 2, Len(Reassembled(r)) \div 2, Len(Replies(r))>>} ELSE {})

TInit == l = 1
TNext ==
    /\ l <= Len(Rec)
    /\ LET r == Rec[l]
           me == IF r.result \in {"panic", "hang", "budget"} THEN {<<"NotTotal", r.result>>} ELSE {}
           de == IF me = {} THEN Diverge(r) ELSE {} IN
       /\ (me # {} => /\ PrintT(ToJson([kind |-> "VIOL", case |-> r.case.id, errs |-> ToString(me)]))
                      /\ TLCSet(3, TLCGet(3) + 1))
       /\ (de # {} => /\ PrintT(ToJson([kind |-> "DIVERGE", case |-> r.case.id, errs |-> ToString(de)]))
                      /\ TLCSet(4, TLCGet(4) + 1))
    /\ l' = l + 1
TraceSpec == TInit /\ [][TNext]_l

Report == PrintT(ToJson([kind |-> "SUMMARY", cases |-> Len(Rec), judged |-> TLCGet("stats").diameter - 1,
                         violations |-> TLCGet(3), divergences |-> TLCGet(4)]))
=============================================================================
