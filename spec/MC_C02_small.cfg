SPECIFICATION Spec
CONSTANTS
  N = 1
  Apps = {0, 1}
  IdxMod = 4
  MaxReq = 1
  MaxPdus = 1
  RetrySet = {0}
  AllowTimer = FALSE
  AllowAbandon = FALSE
  AllowDropCreated = FALSE
  AllowLose = FALSE
  DupBudget = 0
  SendFailBudget = 0
  ViewOwnsSlot = FALSE
  TxCas = FALSE
  EarlyResponse = FALSE
  InitPduIdx = 0
INVARIANTS TypeOK MutualExclusion NoWriterWhileViewed ViewStable NoMisroute
CHECK_DEADLOCK FALSE
