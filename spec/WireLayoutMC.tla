----------------------------- MODULE WireLayoutMC -----------------------------
(* Model-checking / simulation wrapper of WireLayout: prints every finished layout as JSON. *)
EXTENDS WireLayout, Json

Emit == finished => PrintT(ToJson([layout |-> layout, bits |-> TotalBits(layout)]))

=============================================================================
